//! Abstract values (JSON) -> IDLValue at a given type.
use crate::util::*;
use candid::types::value::{IDLField, IDLValue, VariantValue};
use candid::types::{Label, Type, TypeEnv, TypeInner};
use serde_json::Value;

pub fn to_idl(v: &Value, env: &TypeEnv, t: &Type) -> IDLValue {
    let t = env.trace_type(t).unwrap();
    let k = v["k"].as_str().unwrap();
    match (k, t.as_ref()) {
        ("null", TypeInner::Opt(_)) => IDLValue::None,
        ("bool", TypeInner::Null) => IDLValue::Bool(true),
        ("null", _) => IDLValue::Null,
        ("reserved", _) => IDLValue::Reserved,
        ("bool", _) => IDLValue::Bool(v["b"].as_u64().unwrap() == 1),
        // a non-negative number at `int` is given either as an Int or (the leniency the untyped API documents) as a Nat
        ("num", TypeInner::Int) => { let n = jnum(v); if n.sign() != num_bigint::Sign::Minus && n.bits() % 2 == 1 { IDLValue::Nat(candid::Nat(n.to_biguint().unwrap())) } else { IDLValue::Int(candid::Int(n)) } }
        ("num", _) => { let n = jnum(v); if n.sign() == num_bigint::Sign::Minus { IDLValue::Int(candid::Int(n)) } else { IDLValue::Nat(candid::Nat(n.to_biguint().unwrap())) } }
        ("text", _) => IDLValue::Text(jstr(&v["cps"])),
        ("principal", _) => IDLValue::Principal(candid::Principal::from_slice(&jbytes(&v["b"]))),
        ("service", _) => IDLValue::Service(candid::Principal::from_slice(&jbytes(&v["b"]))),
        ("func", _) => IDLValue::Func(candid::Principal::from_slice(&jbytes(&v["b"])), String::from_utf8(jbytes(&v["m"])).unwrap()),
        ("fix", ty) => {
            let b = jbytes(&v["bytes"]);
            let w = match ty { TypeInner::Nat8 | TypeInner::Int8 => 1, TypeInner::Nat16 | TypeInner::Int16 => 2, TypeInner::Nat32 | TypeInner::Int32 | TypeInner::Float32 => 4, TypeInner::Nat64 | TypeInner::Int64 | TypeInner::Float64 => 8, _ => 0 };
            if w == b.len() {
                match ty {
                    TypeInner::Nat8 => IDLValue::Nat8(b[0]), TypeInner::Int8 => IDLValue::Int8(b[0] as i8),
                    TypeInner::Nat16 => IDLValue::Nat16(u16::from_le_bytes(b.try_into().unwrap())), TypeInner::Int16 => IDLValue::Int16(i16::from_le_bytes(b.try_into().unwrap())),
                    TypeInner::Nat32 => IDLValue::Nat32(u32::from_le_bytes(b.try_into().unwrap())), TypeInner::Int32 => IDLValue::Int32(i32::from_le_bytes(b.try_into().unwrap())),
                    TypeInner::Nat64 => IDLValue::Nat64(u64::from_le_bytes(b.try_into().unwrap())), TypeInner::Int64 => IDLValue::Int64(i64::from_le_bytes(b.try_into().unwrap())),
                    TypeInner::Float32 => IDLValue::Float32(f32::from_le_bytes(b.try_into().unwrap())), _ => IDLValue::Float64(f64::from_le_bytes(b.try_into().unwrap())),
                }
            } else {
                // a number of another width than the type asks for (near-miss): built by its own width
                match b.len() { 1 => IDLValue::Nat8(b[0]), 2 => IDLValue::Nat16(u16::from_le_bytes(b.try_into().unwrap())), 4 => IDLValue::Nat32(u32::from_le_bytes(b.try_into().unwrap())), _ => IDLValue::Nat64(u64::from_le_bytes(b.try_into().unwrap())) }
            }
        }
        ("opt", TypeInner::Opt(a)) => IDLValue::Opt(Box::new(to_idl(&v["v"], env, a))),
        ("vec", TypeInner::Vec(a)) => IDLValue::Vec(v["vs"].as_array().unwrap().iter().map(|x| to_idl(x, env, a)).collect()),
        ("rec", TypeInner::Record(fs)) => IDLValue::Record(v["fs"].as_array().unwrap().iter().map(|f| {
            let id = crate::absty::jid(&f["id"]);
            let ft = fs.iter().find(|x| x.id.get_id() == id).map(|x| x.ty.clone()).unwrap_or_else(|| TypeInner::Reserved.into());
            IDLField { id: Label::Id(id), val: to_idl(&f["v"], env, &ft) }
        }).collect()),
        ("var", TypeInner::Variant(fs)) => {
            let id = crate::absty::jid(&v["id"]);
            let (i, ft) = fs.iter().enumerate().find(|(_, x)| x.id.get_id() == id).map(|(i, x)| (i, x.ty.clone())).unwrap_or((0, TypeInner::Reserved.into()));
            IDLValue::Variant(VariantValue(Box::new(IDLField { id: Label::Id(id), val: to_idl(&v["v"], env, &ft) }), i as u64))
        }
        // ill-typed on purpose (near-miss values): build the value from its own shape
        ("opt", _) => IDLValue::Opt(Box::new(to_idl(&v["v"], env, &TypeInner::Reserved.into()))),
        ("vec", _) => IDLValue::Vec(v["vs"].as_array().unwrap().iter().map(|x| to_idl(x, env, &TypeInner::Reserved.into())).collect()),
        ("rec", _) => IDLValue::Record(v["fs"].as_array().unwrap().iter().map(|f| IDLField { id: Label::Id(crate::absty::jid(&f["id"])), val: to_idl(&f["v"], env, &TypeInner::Reserved.into()) }).collect()),
        ("var", _) => IDLValue::Variant(VariantValue(Box::new(IDLField { id: Label::Id(crate::absty::jid(&v["id"])), val: to_idl(&v["v"], env, &TypeInner::Reserved.into()) }), 0)),
        _ => IDLValue::Null,
    }
}
