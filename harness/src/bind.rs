//! Binding generators: C19 (total, deterministic, closed), and the shared runner used by C14's
//! downstream check.  C17 (JavaScript meaning) and C18 (Rust meaning) build on the same outputs.
use crate::util::*;
use candid::types::{Type, TypeEnv, TypeInner};
use candid_parser::bindings::{javascript, motoko, rust, typescript};
use candid_parser::syntax::{IDLMergedProg, IDLProg};
use serde_json::{json, Value};

fn is_ident(s: &str) -> bool { !s.is_empty() && s.chars().all(|c| c.is_ascii_alphanumeric() || c == '_') && !s.chars().next().unwrap().is_ascii_digit() }
/// every method name in the environment and the actor (also nested service types) is an identifier
pub fn motoko_ok(env: &TypeEnv, actor: &Option<Type>) -> bool {
    fn walk(t: &Type, ok: &mut bool, depth: usize) {
        if depth > 40 { return; }
        match t.as_ref() {
            TypeInner::Opt(a) | TypeInner::Vec(a) => walk(a, ok, depth + 1),
            TypeInner::Record(fs) | TypeInner::Variant(fs) => fs.iter().for_each(|f| walk(&f.ty, ok, depth + 1)),
            TypeInner::Func(f) => f.args.iter().chain(f.rets.iter()).for_each(|a| walk(a, ok, depth + 1)),
            TypeInner::Service(ms) => ms.iter().for_each(|(n, t)| { if !is_ident(n) { *ok = false; } walk(t, ok, depth + 1) }),
            TypeInner::Class(args, s) => { args.iter().for_each(|a| walk(a, ok, depth + 1)); walk(s, ok, depth + 1) }
            _ => {}
        }
    }
    let mut ok = true;
    for t in env.0.values() { walk(t, &mut ok, 0); }
    if let Some(a) = actor { walk(a, &mut ok, 0); }
    ok
}
pub fn rust_out(env: &TypeEnv, actor: &Option<Type>, prog: &IDLMergedProg) -> String {
    use std::str::FromStr;
    let config = rust::Config::new(candid_parser::configs::Configs::from_str("").unwrap());
    let mut external = rust::ExternalConfig::default();
    external.0.insert("canister_id".to_string(), "aaaaa-aa".to_string());
    rust::compile(&config, env, actor, prog, external).0
}
/// runs the four generators twice; returns per target {"ok": text?} | "panic@site" | "skip", and "same"
pub fn run_generators(env: &TypeEnv, actor: &Option<Type>, prog: &IDLMergedProg, keep: bool) -> Value {
    let mut out = serde_json::Map::new();
    let targets: Vec<(&str, Box<dyn Fn() -> String>)> = vec![
        ("js", Box::new(|| javascript::compile(env, actor))),
        ("ts", Box::new(|| typescript::compile(env, actor, prog))),
        ("mo", Box::new(|| motoko::compile(env, actor, prog))),
        ("rs", Box::new(|| rust_out(env, actor, prog))),
    ];
    for (name, f) in targets.iter() {
        if *name == "mo" && !motoko_ok(env, actor) { out.insert(name.to_string(), json!({"skip": 1})); continue; }
        let a = guard(|| f());
        let b = guard(|| f());
        let v = match (a, b) {
            (Ok(x), Ok(y)) => if keep { json!({"ok": 1, "same": (x == y) as u8, "text": cps(&x)}) } else { json!({"ok": 1, "same": (x == y) as u8}) },
            (Err(s), _) | (_, Err(s)) => json!({"panic": s}),
        };
        out.insert(name.to_string(), v);
    }
    Value::Object(out)
}
pub fn case(idx: usize, mode: &str, src: &str, accepted: bool, origin: &str) -> Value {
    if !accepted { return json!({"idx": idx, "kind": "skip"}); }
    let c = match crate::prog::check_src(src) { Ok(Ok(c)) => c, _ => return json!({"idx": idx, "kind": "skip"}) };
    if mode == "rs" {
        // C18: the Rust binding's type definitions, to be compiled in a batch by the driver
        let merged = IDLMergedProg::new(c.src.parse::<IDLProg>().unwrap());
        let r = guard(|| { use std::str::FromStr; let config = rust::Config::new(candid_parser::configs::Configs::from_str("").unwrap()); rust::emit_bindgen(&config, &c.env, &c.actor, &merged).0 });
        let g = crate::prog::graph(&c, "s");
        return match r {
            Err(s) => json!({"idx": idx, "kind": "rs", "origin": origin, "src": src.chars().take(2500).collect::<String>(), "g": g, "status": {"panic": s}, "expect_defs": [], "numeric_nontuple": 0}),
            Ok(out) => {
                let mut items = vec![];
                for line in out.type_defs.lines() {
                    let l = line.trim_start();
                    for pre in ["pub struct ", "pub enum ", "pub type ", "candid::define_function!(pub ", "candid::define_service!(pub "] {
                        if let Some(rest) = l.strip_prefix(pre) { let name: String = rest.chars().take_while(|c| c.is_alphanumeric() || *c == '_' || *c == '#').collect(); if !name.is_empty() { items.push(name); } }
                    }
                }
                let methods: Vec<Value> = out.methods.iter().map(|m| json!({"name": m.name, "original": cps(&m.original_name), "args": m.args.iter().map(|a| a.1.clone()).collect::<Vec<_>>(), "rets": m.rets, "mode": m.mode})).collect();
                let init: Vec<String> = out.init_args.as_ref().map(|v| v.iter().map(|a| a.1.clone()).collect()).unwrap_or_default();
                json!({"idx": idx, "kind": "rs", "origin": origin, "src": src.chars().take(2500).collect::<String>(), "g": g, "status": {"ok": 1}, "type_defs": out.type_defs, "items": items, "methods": methods, "init": init,
                       "expect_defs": reachable_defs(&c), "numeric_nontuple": has_numeric_nontuple(&c) as u8})
            }
        };
    }
    if mode == "js" {
        // C17: only programs with a main service
        if c.actor.is_none() { return json!({"idx": idx, "kind": "skip"}); }
        let (js, st) = match guard(|| javascript::compile(&c.env, &c.actor)) { Ok(t) => (t, json!({"ok": 1})), Err(s) => (String::new(), json!({"panic": s})) };
        return json!({"idx": idx, "kind": "js", "origin": origin, "src": src.chars().take(2000).collect::<String>(), "g": crate::prog::graph(&c, "s"), "js": js, "js_status": st});
    }
    let merged = IDLMergedProg::new(c.src.parse::<IDLProg>().unwrap());
    let gens = run_generators(&c.env, &c.actor, &merged, true);
    let _ = mode;
    // methods of the main service; counted only when each name occurs once in the whole program
    let main: Vec<String> = match c.actor.as_ref().map(|a| a.as_ref()) {
        Some(TypeInner::Service(ms)) => ms.iter().map(|m| m.0.clone()).collect(),
        Some(TypeInner::Class(_, s)) => match c.env.trace_type(s).map(|t| t.as_ref().clone()) { Ok(TypeInner::Service(ms)) => ms.iter().map(|m| m.0.clone()).collect(), _ => vec![] },
        Some(TypeInner::Var(_)) => match c.env.trace_type(c.actor.as_ref().unwrap()).map(|t| t.as_ref().clone()) { Ok(TypeInner::Service(ms)) => ms.iter().map(|m| m.0.clone()).collect(), _ => vec![] },
        _ => vec![],
    };
    let uniq = main.iter().all(|m| src.matches(&crate::hash::lit(m)).count() + src.matches(&format!("{m} :")).count() == 1);
    // definition names that every target keeps as they are (plain identifiers that are not a keyword anywhere): for these
    // "referenced implies declared" can be decided on the token stream of the output
    let kw = ["type", "interface", "class", "return", "function", "self", "Self", "var", "new", "import", "export", "let", "const", "module", "public", "func", "query", "shared", "actor", "async", "object",
              "enum", "struct", "impl", "trait", "fn", "mod", "use", "pub", "crate", "super", "in", "for", "if", "else", "while", "do", "switch", "case", "default", "null", "true", "false", "void", "this", "with",
              "Principal", "Nat", "Int", "Text", "Bool", "Blob", "Any", "None", "Nat8", "Nat16", "Nat32", "Nat64", "Int8", "Int16", "Int32", "Int64", "Float", "Char", "Error", "ActorMethod", "IDL", "Array", "Uint8Array", "BigInt", "number", "string", "boolean", "bigint", "undefined"];
    let defs: Vec<Value> = c.env.0.keys().filter(|n| { let mut cs = n.chars(); cs.next().map(|c| c.is_ascii_alphabetic()).unwrap_or(false) && n.chars().all(|c| c.is_ascii_alphanumeric() || c == '_') && !n.ends_with('_') && !kw.contains(&n.as_str()) }).map(|n| cps(n)).collect();
    json!({"idx": idx, "kind": "bind", "origin": origin, "src": src.chars().take(2000).collect::<String>(), "methods": main.iter().map(|m| cps(m)).collect::<Vec<_>>(), "count_methods": uniq as u8, "gens": gens, "defs": defs})
}

/// definitions the binding has to emit: those reachable from the main service (all of them when there is none)
fn reachable_defs(c: &crate::prog::Checked) -> Vec<String> {
    fn walk(env: &TypeEnv, t: &Type, seen: &mut std::collections::BTreeSet<String>) {
        match t.as_ref() {
            TypeInner::Var(id) => { if seen.insert(id.clone()) { if let Some(b) = env.0.get(id) { walk(env, b, seen); } } }
            TypeInner::Opt(a) | TypeInner::Vec(a) => walk(env, a, seen),
            TypeInner::Record(fs) | TypeInner::Variant(fs) => fs.iter().for_each(|f| walk(env, &f.ty, seen)),
            TypeInner::Func(f) => f.args.iter().chain(f.rets.iter()).for_each(|a| walk(env, a, seen)),
            TypeInner::Service(ms) => ms.iter().for_each(|(_, t)| walk(env, t, seen)),
            TypeInner::Class(args, s) => { args.iter().for_each(|a| walk(env, a, seen)); walk(env, s, seen) }
            _ => {}
        }
    }
    match &c.actor { None => c.env.0.keys().cloned().collect(), Some(a) => { let mut seen = Default::default(); walk(&c.env, a, &mut seen); seen.into_iter().collect() } }
}
/// a numeric label in a record or variant that is not a tuple (the generator has no id-preserving attribute for it)
fn has_numeric_nontuple(c: &crate::prog::Checked) -> bool {
    fn walk(t: &Type, hit: &mut bool, depth: usize) {
        if depth > 30 { return; }
        match t.as_ref() {
            TypeInner::Opt(a) | TypeInner::Vec(a) => walk(a, hit, depth + 1),
            TypeInner::Record(fs) | TypeInner::Variant(fs) => {
                let tuple = matches!(t.as_ref(), TypeInner::Record(_)) && fs.iter().enumerate().all(|(i, f)| f.id.get_id() == i as u32 && !matches!(f.id.as_ref(), candid::types::Label::Named(_)));
                if !tuple && fs.iter().any(|f| !matches!(f.id.as_ref(), candid::types::Label::Named(_))) { *hit = true; }
                fs.iter().for_each(|f| walk(&f.ty, hit, depth + 1))
            }
            TypeInner::Func(f) => f.args.iter().chain(f.rets.iter()).for_each(|a| walk(a, hit, depth + 1)),
            TypeInner::Service(ms) => ms.iter().for_each(|(_, t)| walk(t, hit, depth + 1)),
            TypeInner::Class(args, s) => { args.iter().for_each(|a| walk(a, hit, depth + 1)); walk(s, hit, depth + 1) }
            _ => {}
        }
    }
    let mut hit = false;
    for t in c.env.0.values() { walk(t, &mut hit, 0); }
    if let Some(a) = &c.actor { walk(a, &mut hit, 0); }
    hit
}
