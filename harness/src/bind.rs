//! Binding generators: C19 (total, deterministic, closed), and the shared runner used by C14's
//! downstream check.  C17 (JavaScript meaning) and C18 (Rust meaning) build on the same outputs.
use crate::util::*;
use candid::types::{Type, TypeEnv, TypeInner};
use candid_parser::bindings::{javascript, motoko, rust, typescript};
use candid_parser::syntax::{IDLMergedProg, IDLProg};
use serde_json::{json, Value};

fn is_ident(s: &str) -> bool { !s.is_empty() && s.chars().all(|c| c.is_ascii_alphanumeric() || c == '_') && !s.chars().next().unwrap().is_ascii_digit() }
/// every method name in the environment and the actor (also nested service types) is an identifier
pub fn motoko_ok(env: &TypeEnv, actor: &Option<Type>) -> bool {
    fn walk(t: &Type, ok: &mut bool, depth: usize) {
        if depth > 40 { return; }
        match t.as_ref() {
            TypeInner::Opt(a) | TypeInner::Vec(a) => walk(a, ok, depth + 1),
            TypeInner::Record(fs) | TypeInner::Variant(fs) => fs.iter().for_each(|f| walk(&f.ty, ok, depth + 1)),
            TypeInner::Func(f) => f.args.iter().chain(f.rets.iter()).for_each(|a| walk(a, ok, depth + 1)),
            TypeInner::Service(ms) => ms.iter().for_each(|(n, t)| { if !is_ident(n) { *ok = false; } walk(t, ok, depth + 1) }),
            TypeInner::Class(args, s) => { args.iter().for_each(|a| walk(a, ok, depth + 1)); walk(s, ok, depth + 1) }
            _ => {}
        }
    }
    let mut ok = true;
    for t in env.0.values() { walk(t, &mut ok, 0); }
    if let Some(a) = actor { walk(a, &mut ok, 0); }
    ok
}
pub fn rust_out(env: &TypeEnv, actor: &Option<Type>, prog: &IDLMergedProg) -> String {
    use std::str::FromStr;
    let config = rust::Config::new(candid_parser::configs::Configs::from_str("").unwrap());
    let mut external = rust::ExternalConfig::default();
    external.0.insert("canister_id".to_string(), "aaaaa-aa".to_string());
    rust::compile(&config, env, actor, prog, external).0
}
/// runs the four generators twice; returns per target {"ok": text?} | "panic@site" | "skip", and "same"
pub fn run_generators(env: &TypeEnv, actor: &Option<Type>, prog: &IDLMergedProg, keep: bool) -> Value {
    let mut out = serde_json::Map::new();
    let targets: Vec<(&str, Box<dyn Fn() -> String>)> = vec![
        ("js", Box::new(|| javascript::compile(env, actor))),
        ("ts", Box::new(|| typescript::compile(env, actor, prog))),
        ("mo", Box::new(|| motoko::compile(env, actor, prog))),
        ("rs", Box::new(|| rust_out(env, actor, prog))),
    ];
    for (name, f) in targets.iter() {
        if *name == "mo" && !motoko_ok(env, actor) { out.insert(name.to_string(), json!({"skip": 1})); continue; }
        let a = guard(|| f());
        let b = guard(|| f());
        let v = match (a, b) {
            (Ok(x), Ok(y)) => if keep { json!({"ok": 1, "same": (x == y) as u8, "text": cps(&x)}) } else { json!({"ok": 1, "same": (x == y) as u8}) },
            (Err(s), _) | (_, Err(s)) => json!({"panic": s}),
        };
        out.insert(name.to_string(), v);
    }
    Value::Object(out)
}
pub fn case(idx: usize, mode: &str, src: &str, accepted: bool, origin: &str) -> Value {
    if !accepted { return json!({"idx": idx, "kind": "skip"}); }
    let c = match crate::prog::check_src(src) { Ok(Ok(c)) => c, _ => return json!({"idx": idx, "kind": "skip"}) };
    if mode == "js" {
        // C17: only programs with a main service
        if c.actor.is_none() { return json!({"idx": idx, "kind": "skip"}); }
        let (js, st) = match guard(|| javascript::compile(&c.env, &c.actor)) { Ok(t) => (t, json!({"ok": 1})), Err(s) => (String::new(), json!({"panic": s})) };
        return json!({"idx": idx, "kind": "js", "origin": origin, "src": src.chars().take(2000).collect::<String>(), "g": crate::prog::graph(&c, "s"), "js": js, "js_status": st});
    }
    let merged = IDLMergedProg::new(c.src.parse::<IDLProg>().unwrap());
    let gens = run_generators(&c.env, &c.actor, &merged, true);
    let _ = mode;
    // methods of the main service; counted only when each name occurs once in the whole program
    let main: Vec<String> = match c.actor.as_ref().map(|a| a.as_ref()) {
        Some(TypeInner::Service(ms)) => ms.iter().map(|m| m.0.clone()).collect(),
        Some(TypeInner::Class(_, s)) => match c.env.trace_type(s).map(|t| t.as_ref().clone()) { Ok(TypeInner::Service(ms)) => ms.iter().map(|m| m.0.clone()).collect(), _ => vec![] },
        Some(TypeInner::Var(_)) => match c.env.trace_type(c.actor.as_ref().unwrap()).map(|t| t.as_ref().clone()) { Ok(TypeInner::Service(ms)) => ms.iter().map(|m| m.0.clone()).collect(), _ => vec![] },
        _ => vec![],
    };
    let uniq = main.iter().all(|m| src.matches(&crate::hash::lit(m)).count() + src.matches(&format!("{m} :")).count() == 1);
    json!({"idx": idx, "kind": "bind", "origin": origin, "src": src.chars().take(2000).collect::<String>(), "methods": main.iter().map(|m| cps(m)).collect::<Vec<_>>(), "count_methods": uniq as u8, "gens": gens})
}
