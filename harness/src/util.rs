//! Shared helpers: panic capture (a panic in the code under test is data), CLI options, JSON
//! conventions of DESIGN.md §3.
use serde_json::{json, Value};
use std::cell::RefCell;
use std::io::{BufRead, Write};

thread_local! { static LAST_PANIC: RefCell<String> = RefCell::new(String::new()); }

pub fn install_panic_hook() {
    std::panic::set_hook(Box::new(|info| {
        let loc = info
            .location()
            .map(|l| {
                let f = l.file();
                let f = f.rsplit("/rust/").next().unwrap_or(f);
                // generated parser files have unstable line numbers
                if f.contains("grammar.rs") || f.contains("/out/") { "grammar.rs".to_string() } else { format!("{}:{}", f, l.line()) }
            })
            .unwrap_or_else(|| "?".into());
        if std::env::var("CV_DEBUG").is_ok() { eprintln!("panic at {} : {}", info.location().map(|l| l.to_string()).unwrap_or_default(), info); }
        LAST_PANIC.with(|p| *p.borrow_mut() = loc);
    }));
}

/// Run `f`; a panic becomes `Err(site)`.
pub fn guard<T>(f: impl FnOnce() -> T) -> Result<T, String> {
    match std::panic::catch_unwind(std::panic::AssertUnwindSafe(f)) {
        Ok(v) => Ok(v),
        Err(_) => Err(LAST_PANIC.with(|p| p.borrow().clone())),
    }
}

pub struct Opts {
    pub cases: Option<String>,
    pub seed: u64,
    pub n: usize,
    pub start: usize,
    pub extra: Vec<String>,
}
pub fn opts(args: &[String]) -> Opts {
    let mut o = Opts { cases: None, seed: 1, n: 0, start: 0, extra: vec![] };
    let mut i = 0;
    while i < args.len() {
        match args[i].as_str() {
            "--cases" => { o.cases = Some(args[i + 1].clone()); i += 1; }
            "--seed" => { o.seed = args[i + 1].parse().unwrap(); i += 1; }
            "--n" => { o.n = args[i + 1].parse().unwrap(); i += 1; }
            "--start" => { o.start = args[i + 1].parse().unwrap(); i += 1; }
            x => o.extra.push(x.to_string()),
        }
        i += 1;
    }
    o
}

/// Read TLC-generated cases (one JSON object per line).
pub fn read_cases(path: &Option<String>) -> Vec<Value> {
    let mut v = vec![];
    if let Some(p) = path {
        let f = std::io::BufReader::new(std::fs::File::open(p).expect("cases file"));
        for line in f.lines() {
            let line = line.unwrap();
            if line.trim().is_empty() { continue; }
            v.push(serde_json::from_str(&line).expect("case json"));
        }
    }
    v
}

pub struct Out { w: std::io::BufWriter<std::io::Stdout> }
impl Out {
    pub fn new() -> Self { Out { w: std::io::BufWriter::new(std::io::stdout()) } }
    /// exactly one line per case, flushed, so the supervisor can tell which case killed a worker
    pub fn emit(&mut self, v: &Value) {
        // TLC's Json module cannot read `null`: an absent piece of data is written as {"none": 1}
        fn scrub(v: &Value) -> Value {
            match v {
                Value::Null => json!({"none": 1}),
                Value::Array(a) => Value::Array(a.iter().map(scrub).collect()),
                Value::Object(o) => Value::Object(o.iter().map(|(k, x)| (k.clone(), scrub(x))).collect()),
                o => o.clone(),
            }
        }
        let v = &scrub(v);
        serde_json::to_writer(&mut self.w, v).unwrap();
        self.w.write_all(b"\n").unwrap();
        self.w.flush().unwrap();
    }
}

pub fn u32j(n: u32) -> Value { json!([n >> 16, n & 0xffff]) }
pub fn bytesj(b: &[u8]) -> Value { Value::Array(b.iter().map(|x| json!(*x)).collect()) }
pub fn jbytes(v: &Value) -> Vec<u8> { v.as_array().map(|a| a.iter().map(|x| x.as_u64().unwrap() as u8).collect()).unwrap_or_default() }
pub fn cps(s: &str) -> Value { Value::Array(s.chars().map(|c| json!(c as u32)).collect()) }
pub fn jstr(v: &Value) -> String { v.as_array().map(|a| a.iter().map(|x| char::from_u32(x.as_u64().unwrap() as u32).unwrap_or('\u{fffd}')).collect()).unwrap_or_default() }

fn bits_of(mag: &num_bigint::BigUint) -> Value {
    let mut v: Vec<Value> = if mag.bits() == 0 { vec![] } else { mag.to_radix_le(2).into_iter().map(|d| json!(d)).collect() };
    while v.last() == Some(&json!(0)) { v.pop(); }
    Value::Array(v)
}
pub fn num(i: &num_bigint::BigInt) -> Value {
    let neg = i.sign() == num_bigint::Sign::Minus;
    json!({"k":"num","neg": neg, "bits": bits_of(i.magnitude())})
}
pub fn unum(i: &num_bigint::BigUint) -> Value { json!({"k":"num","neg": false, "bits": bits_of(i)}) }
pub fn jnum(v: &Value) -> num_bigint::BigInt {
    let mut m = num_bigint::BigUint::from(0u8);
    for (i, b) in v["bits"].as_array().unwrap().iter().enumerate() {
        if b.as_u64().unwrap() == 1 { m.set_bit(i as u64, true); }
    }
    let i = num_bigint::BigInt::from(m);
    if v["neg"].as_bool().unwrap_or(false) { -i } else { i }
}
/// outcome wrapper: Ok(json) / Err(()) / panic
pub fn outcome(r: Result<Result<Value, String>, String>) -> Value {
    match r {
        Ok(Ok(v)) => v,
        Ok(Err(e)) => json!({"err": 1, "msg": e.chars().take(160).collect::<String>()}),
        Err(site) => json!({"panic": site}),
    }
}

/// the informative end of an error message (the crate puts the input dump first)
pub fn tail(s: &str) -> String { let v: Vec<char> = s.chars().collect(); let n = v.len(); v[n.saturating_sub(220)..].iter().collect() }

/// root cause of a candid error: the "Caused by" chain of its Debug form (without the backtrace), else the end of its Display form
pub fn errmsg<E: std::fmt::Debug + std::fmt::Display>(e: &E) -> String {
    let d = format!("{e:?}");
    if let Some(i) = d.find("Caused by:") {
        let rest = &d[i..];
        let end = rest.find("Stack backtrace").unwrap_or(rest.len());
        let lines: Vec<&str> = rest[..end].lines().skip(1).map(|l| l.trim()).filter(|l| !l.is_empty()).collect();
        let causes: Vec<&str> = lines.into_iter().filter(|l| !l.starts_with("input:") && !l.starts_with("table:") && !l.starts_with("type table") && !l.starts_with("wire_type:")).collect();
        return format!("{} || {}", tail(&e.to_string()), causes.join(" | "));
    }
    tail(&e.to_string())
}
