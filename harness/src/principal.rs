//! C16: principal text form and constructors.
use crate::util::*;
use candid::{Decode, Encode, Principal};
use rand::prelude::*;
use serde_json::{json, Value};
use std::str::FromStr;

fn pb(p: &Principal) -> Value { json!({"ok": bytesj(p.as_slice())}) }
pub fn bytes_case(idx: usize, b: &[u8]) -> Value {
    let mut obs = serde_json::Map::new();
    let p = guard(|| Principal::try_from_slice(b).map_err(|e| e.to_string()));
    obs.insert("try_from_slice".into(), outcome(p.clone().map(|r| r.map(|p| pb(&p)))));
    obs.insert("try_from_vec".into(), outcome(guard(|| Principal::try_from(b.to_vec()).map(|p| pb(&p)).map_err(|e| e.to_string()))));
    obs.insert("try_from_ref".into(), outcome(guard(|| Principal::try_from(b).map(|p| pb(&p)).map_err(|e| e.to_string()))));
    obs.insert("from_slice".into(), match guard(|| Principal::from_slice(b)) { Ok(p) => pb(&p), Err(_) => json!({"err": 1}) });
    if let Ok(Ok(p)) = p {
        obs.insert("to_text".into(), outcome(guard(|| Ok(json!({"ok": cps(&p.to_text())})))));
        obs.insert("display".into(), outcome(guard(|| Ok(json!({"ok": cps(&format!("{p}"))})))));
        obs.insert("roundtrip".into(), outcome(guard(|| Principal::from_text(p.to_text()).map(|q| pb(&q)).map_err(|e| e.to_string()))));
        obs.insert("json".into(), outcome(guard(|| { let s = serde_json::to_string(&p).map_err(|e| e.to_string())?; let q: Principal = serde_json::from_str(&s).map_err(|e| e.to_string())?; Ok(json!({"ok": bytesj(q.as_slice()), "text": cps(&serde_json::from_str::<String>(&s).unwrap_or_default())})) })));
        obs.insert("candid".into(), outcome(guard(|| { let m = Encode!(&p).map_err(|e| e.to_string())?; let q = Decode!(&m, Principal).map_err(|e| e.to_string())?; Ok(json!({"ok": bytesj(q.as_slice()), "wire": bytesj(&m)})) })));
    }
    // wire: principal value with this payload (flag 1, length, bytes)
    let mut m = vec![b'D', b'I', b'D', b'L', 0, 1, 0x68, 1];
    candid::types::leb128::encode_nat(&mut m, b.len() as u128).unwrap();
    m.extend_from_slice(b);
    obs.insert("wire_native".into(), outcome(guard(|| Decode!(&m, Principal).map(|p| pb(&p)).map_err(|e| e.to_string()))));
    obs.insert("wire_value".into(), outcome(guard(|| candid::IDLArgs::from_bytes(&m).map_err(|e| e.to_string()).and_then(|a| match &a.args[0] { candid::types::value::IDLValue::Principal(p) => Ok(pb(p)), _ => Err("shape".into()) }))));
    json!({"idx": idx, "kind": "bytes", "b": bytesj(b), "obs": obs})
}
pub fn text_case(idx: usize, s: &str) -> Value {
    let mut obs = serde_json::Map::new();
    obs.insert("from_text".into(), outcome(guard(|| Principal::from_text(s).map(|p| pb(&p)).map_err(|e| e.to_string()))));
    obs.insert("from_str".into(), outcome(guard(|| Principal::from_str(s).map(|p| pb(&p)).map_err(|e| e.to_string()))));
    obs.insert("try_from_str".into(), outcome(guard(|| Principal::try_from(s).map(|p| pb(&p)).map_err(|e| e.to_string()))));
    obs.insert("json".into(), outcome(guard(|| serde_json::from_value::<Principal>(json!(s)).map(|p| pb(&p)).map_err(|e| e.to_string()))));
    obs.insert("value_text".into(), outcome(guard(|| { let lit = crate::hash::lit(s); let a = candid_parser::parse_idl_args(&format!("(principal {lit})")).map_err(|e| e.to_string())?; match &a.args[0] { candid::types::value::IDLValue::Principal(p) => Ok(pb(p)), _ => Err("shape".into()) } })));
    json!({"idx": idx, "kind": "text", "s": cps(s), "obs": obs})
}
fn mutate(rng: &mut StdRng, s: &str) -> String {
    let mut v: Vec<char> = s.chars().collect();
    let reps = ['a', 'z', 'A', 'Z', '2', '7', '0', '1', '8', '9', '-', ' ', 'é', '=', '_'];
    for _ in 0..rng.gen_range(1..3) {
        let pos = if v.is_empty() { 0 } else { rng.gen_range(0..v.len()) };
        match rng.gen_range(0..7) {
            0 if !v.is_empty() => { v[pos] = *reps.choose(rng).unwrap(); }
            1 if !v.is_empty() => { v[pos] = if v[pos].is_ascii_lowercase() { v[pos].to_ascii_uppercase() } else { v[pos].to_ascii_lowercase() }; }
            2 if !v.is_empty() => { v.remove(pos); }
            3 => { v.insert(pos, *reps.choose(rng).unwrap()); }
            4 => { v.truncate(pos); }
            5 if v.len() > 1 => { let q = rng.gen_range(0..v.len()); v.swap(pos, q); }
            _ => { v.retain(|c| *c != '-'); }
        }
    }
    v.into_iter().collect()
}
pub fn run(o: &Opts) {
    let cases = read_cases(&o.cases);
    let mut out = Out::new();
    let mut idx = 0usize;
    for c in &cases {
        if idx >= o.start {
            if c.get("b").is_some() { out.emit(&bytes_case(idx, &jbytes(&c["b"]))); } else { out.emit(&text_case(idx, &jstr(&c["s"]))); }
        }
        idx += 1;
    }
    let mut rng = StdRng::seed_from_u64(o.seed);
    for i in 0..o.n {
        let len = if rng.gen_bool(0.15) { rng.gen_range(30..41) } else { rng.gen_range(0..30) };
        let b: Vec<u8> = (0..len).map(|_| if rng.gen_bool(0.2) { *[0u8, 0xff, 0x80].choose(&mut rng).unwrap() } else { rng.gen() }).collect();
        if i % 3 == 0 { if idx >= o.start { out.emit(&bytes_case(idx, &b)); } }
        else {
            // texts derived from a harness-side canonical printer are not used: mutate the crate's text (the
            // referee recomputes acceptance from scratch, so the origin of the text does not matter)
            let base = if b.len() <= 29 { Principal::from_slice(&b).to_text() } else { "aaaaa-aa".to_string() };
            let s = if rng.gen_bool(0.2) { base.to_ascii_uppercase() } else { mutate(&mut rng, &base) };
            if idx >= o.start { out.emit(&text_case(idx, &s)); }
        }
        idx += 1;
    }
}
