//! C01 (history dimension): call histories over the thread-local type memo, replayed in a fresh thread.
use crate::corpus::*;
use crate::native::{Ops, E};
use crate::util::*;
use serde_json::{json, Value};
use std::marker::PhantomData;
use std::collections::BTreeMap;

fn sub_corpus() -> Vec<(&'static str, Box<dyn Ops + Send>)> {
    vec![("List", Box::new(E::<List>(PhantomData))), ("Node", Box::new(E::<Node>(PhantomData))), ("Tree", Box::new(E::<Tree>(PhantomData))),
         ("WList", Box::new(E::<Wrapper<List>>(PhantomData))), ("MapIntNat", Box::new(E::<BTreeMap<candid::Int, candid::Nat>>(PhantomData))), ("Bytes", Box::new(E::<Vec<u8>>(PhantomData))),
         ("Expr", Box::new(E::<Expr>(PhantomData))), ("MapTextList", Box::new(E::<BTreeMap<String, List>>(PhantomData)))]
}
unsafe impl<T> Send for E<T> {}

/// history = list of [op, type]; ops: ty, rt (encode + decode), newbuilder, clear
fn replay(hist: &[(String, String)], seed: u64) -> Value {
    use rand::SeedableRng;
    let hist = hist.to_vec();
    let h = std::thread::Builder::new().stack_size(16 << 20).spawn(move || {
        install_panic_hook();
        let corp = sub_corpus();
        let find = |n: &str| corp.iter().find(|(k, _)| *k == n).map(|(_, e)| e);
        let mut g = rand::rngs::StdRng::seed_from_u64(seed);
        let mut steps = vec![];
        for (op, ty) in &hist {
            let r = match op.as_str() {
                "ty" => find(ty).map(|e| json!({"ty_now": e.ty_now()})).unwrap_or(json!({})),
                "rt" => find(ty).map(|e| json!({"rt": e.roundtrip(&mut g)["res"].clone()})).unwrap_or(json!({})),
                "newbuilder" => { let _ = guard(|| { let _b = candid::ser::IDLBuilder::new(); }); json!({}) }
                "clear" => { candid::types::internal::env_clear(); json!({}) }
                _ => json!({}),
            };
            // after every step: every type of the sub-corpus must still round-trip and denote its declared type
            let mut probes = serde_json::Map::new();
            for (n, e) in corp.iter() {
                probes.insert(n.to_string(), json!({"rt": e.roundtrip(&mut g)["res"].clone(), "ty_now": e.ty_now()}));
            }
            steps.push(json!({"op": op, "ty": ty, "r": r, "probes": probes}));
        }
        // declared types
        let mut decls = serde_json::Map::new();
        for (n, e) in corp.iter() { let mut d = Decl::new(); let t = e.decl(&mut d); decls.insert(n.to_string(), json!({"t": t, "env": d.nodes})); }
        json!({"steps": steps, "decls": decls})
    }).unwrap();
    match h.join() { Ok(v) => v, Err(_) => json!({"thread_panic": 1}) }
}
pub fn run(o: &Opts) {
    let cases = read_cases(&o.cases);
    let mut out = Out::new();
    for (idx, c) in cases.iter().enumerate() {
        if idx < o.start { continue; }
        let hist: Vec<(String, String)> = c["hist"].as_array().unwrap().iter().map(|x| (x[0].as_str().unwrap().to_string(), x[1].as_str().unwrap().to_string())).collect();
        let r = replay(&hist, o.seed + idx as u64);
        out.emit(&json!({"idx": idx, "kind": "hist", "hist": c["hist"], "r": r}));
    }
}
