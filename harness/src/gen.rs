use candid::types::value::{IDLArgs, IDLField, IDLValue, VariantValue};
use candid::types::{Field, FuncMode, Function, Label, Type, TypeEnv, TypeInner};
use candid::Principal;
use rand::prelude::*;
use std::rc::Rc;

pub struct G {
    pub rng: StdRng,
    pub ndefs: usize,
}
fn ty(t: TypeInner) -> Type {
    t.into()
}
const PRIMS: &[fn() -> TypeInner] = &[
    || TypeInner::Null, || TypeInner::Bool, || TypeInner::Nat, || TypeInner::Int, || TypeInner::Nat8,
    || TypeInner::Nat16, || TypeInner::Nat32, || TypeInner::Nat64, || TypeInner::Int8, || TypeInner::Int16,
    || TypeInner::Int32, || TypeInner::Int64, || TypeInner::Float32, || TypeInner::Float64, || TypeInner::Text,
    || TypeInner::Reserved, || TypeInner::Empty, || TypeInner::Principal,
];
impl G {
    pub fn new(seed: u64) -> Self {
        G { rng: StdRng::seed_from_u64(seed), ndefs: 0 }
    }
    pub fn rng_range(&mut self, a: usize, b: usize) -> usize { self.rng.gen_range(a..b) }
    fn field_ids(&mut self, n: usize) -> Vec<u32> {
        let pool = [0u32, 1, 2, 3, 5, 7, 100, 65536, 4294967295, 1158359328, 24860];
        let mut ids: Vec<u32> = pool.choose_multiple(&mut self.rng, n).cloned().collect();
        ids.sort();
        ids
    }
    pub fn func(&mut self, depth: usize) -> Function {
        let na = self.rng.gen_range(0..3);
        let nr = self.rng.gen_range(0..3);
        let mode = match self.rng.gen_range(0..5) { 0 => vec![FuncMode::Query], 1 => vec![FuncMode::Oneway], 2 => vec![FuncMode::CompositeQuery], _ => vec![] };
        let rets = if mode == vec![FuncMode::Oneway] { vec![] } else { (0..nr).map(|_| self.typ(depth)).collect() };
        Function { modes: mode, args: (0..na).map(|_| self.typ(depth)).collect(), rets }
    }
    pub fn typ(&mut self, depth: usize) -> Type {
        let c = if depth == 0 { self.rng.gen_range(0..8) } else { self.rng.gen_range(0..20) };
        match c {
            0..=4 => ty(PRIMS.choose(&mut self.rng).unwrap()()),
            5..=7 => {
                if self.ndefs == 0 { ty(TypeInner::Nat) } else { ty(TypeInner::Var(format!("D{}", self.rng.gen_range(0..self.ndefs)))) }
            }
            8..=10 => ty(TypeInner::Opt(self.typ(depth - 1))),
            11..=12 => ty(TypeInner::Vec(self.typ(depth - 1))),
            13..=15 => {
                let n = self.rng.gen_range(0..4);
                let ids = self.field_ids(n);
                ty(TypeInner::Record(ids.into_iter().map(|i| Field { id: Rc::new(Label::Id(i)), ty: self.typ(depth - 1) }).collect()))
            }
            16..=17 => {
                let n = self.rng.gen_range(1..4);
                let ids = self.field_ids(n);
                ty(TypeInner::Variant(ids.into_iter().map(|i| Field { id: Rc::new(Label::Id(i)), ty: self.typ(depth - 1) }).collect()))
            }
            18 => ty(TypeInner::Func(self.func(depth - 1))),
            _ => {
                let n = self.rng.gen_range(0..3);
                let mut names: Vec<String> = ["m", "n", "a b", "ü"].choose_multiple(&mut self.rng, n).map(|s| s.to_string()).collect();
                names.sort();
                ty(TypeInner::Service(names.into_iter().map(|nm| (nm, ty(TypeInner::Func(self.func(depth - 1))))).collect()))
            }
        }
    }
    pub fn env(&mut self, n: usize) -> TypeEnv {
        self.ndefs = n;
        let mut env = TypeEnv::new();
        for i in 0..n {
            // definitions are composite (productive)
            let mut t = self.typ(2);
            let mut guard = 0;
            while matches!(t.as_ref(), TypeInner::Var(_)) && guard < 10 { t = self.typ(2); guard += 1; }
            if matches!(t.as_ref(), TypeInner::Var(_)) { t = ty(TypeInner::Nat); }
            // now and then a definition that is optional-like, so that a *reference* can stand where an upgrade adds an optional field
            if self.rng.gen_bool(0.2) { t = match self.rng.gen_range(0..4) { 0 => ty(TypeInner::Null), 1 => ty(TypeInner::Reserved), _ => ty(TypeInner::Opt(self.typ(1))) }; }
            env.0.insert(format!("D{i}"), t);
        }
        env
    }
    fn principal(&mut self) -> Principal {
        let n = self.rng.gen_range(0..=29);
        let b: Vec<u8> = (0..n).map(|_| self.rng.gen()).collect();
        Principal::from_slice(&b)
    }
    fn text(&mut self) -> String {
        let n = self.rng.gen_range(0..5);
        (0..n).map(|_| *['a', 'Z', '0', ' ', '\u{e9}', '\u{1f4e6}', '\0', '"'].choose(&mut self.rng).unwrap()).collect()
    }
    // value of type t; None if none found within fuel
    pub fn val(&mut self, env: &TypeEnv, t: &Type, fuel: usize) -> Option<IDLValue> {
        use TypeInner::*;
        Some(match t.as_ref() {
            Var(id) => { if fuel == 0 { return None; } let b = env.0.get(id).unwrap().clone(); return self.val(env, &b, fuel - 1); }
            Null => IDLValue::Null,
            Bool => IDLValue::Bool(self.rng.gen()),
            Nat => IDLValue::Nat(match self.rng.gen_range(0..4) { 0 => 0u8.into(), 1 => 127u8.into(), 2 => u64::MAX.into(), _ => candid::Nat::parse(b"340282366920938463463374607431768211456000").unwrap() }),
            Int => IDLValue::Int(match self.rng.gen_range(0..4) { 0 => 0.into(), 1 => (-64).into(), 2 => i64::MIN.into(), _ => candid::Int::parse(b"-340282366920938463463374607431768211456000").unwrap() }),
            Nat8 => IDLValue::Nat8(self.rng.gen()), Nat16 => IDLValue::Nat16(self.rng.gen()), Nat32 => IDLValue::Nat32(self.rng.gen()), Nat64 => IDLValue::Nat64(self.rng.gen()),
            Int8 => IDLValue::Int8(self.rng.gen()), Int16 => IDLValue::Int16(self.rng.gen()), Int32 => IDLValue::Int32(self.rng.gen()), Int64 => IDLValue::Int64(self.rng.gen()),
            Float32 => IDLValue::Float32(self.rng.gen_range(-100..100) as f32 / 4.0), Float64 => IDLValue::Float64(self.rng.gen_range(-100..100) as f64 / 8.0),
            Text => IDLValue::Text(self.text()),
            Reserved => IDLValue::Reserved,
            Empty => return None,
            Principal => IDLValue::Principal(self.principal()),
            Opt(a) => { if fuel == 0 || self.rng.gen_bool(0.3) { IDLValue::None } else { match self.val(env, a, fuel - 1) { Some(v) => IDLValue::Opt(Box::new(v)), None => IDLValue::None } } }
            Vec(a) => {
                let n = if fuel == 0 { 0 } else { self.rng.gen_range(0..3) };
                let mut vs = vec![];
                for _ in 0..n { if let Some(v) = self.val(env, a, fuel - 1) { vs.push(v) } else { break } }
                let is_blob = matches!(env.trace_type(a).unwrap().as_ref(), TypeInner::Nat8);
                if is_blob { IDLValue::Blob(vs.iter().map(|v| if let IDLValue::Nat8(x) = v { *x } else { 0 }).collect()) } else { IDLValue::Vec(vs) }
            }
            Record(fs) => {
                if fuel == 0 && !fs.is_empty() { return None; }
                let mut out = vec![];
                for f in fs { out.push(IDLField { id: (*f.id).clone(), val: self.val(env, &f.ty, fuel.saturating_sub(1))? }); }
                IDLValue::Record(out)
            }
            Variant(fs) => {
                if fuel == 0 { return None; }
                let mut order: std::vec::Vec<usize> = (0..fs.len()).collect();
                order.shuffle(&mut self.rng);
                for i in order {
                    if let Some(v) = self.val(env, &fs[i].ty, fuel - 1) {
                        return Some(IDLValue::Variant(VariantValue(Box::new(IDLField { id: (*fs[i].id).clone(), val: v }), i as u64)));
                    }
                }
                return None;
            }
            Func(_) => IDLValue::Func(self.principal(), self.text().replace('\0', "x")),
            Service(_) => IDLValue::Service(self.principal()),
            _ => return None,
        })
    }
    // an expected type somehow related to t
    pub fn related(&mut self, env: &TypeEnv, t: &Type, depth: usize) -> Type {
        use TypeInner::*;
        let c = self.rng.gen_range(0..12);
        if c == 0 { return ty(Opt(t.clone())); }
        if c == 1 { return ty(Reserved); }
        if c == 2 { return self.typ(2); }
        if depth == 0 { return t.clone(); }
        match t.as_ref() {
            Var(id) if c < 6 => { let b = env.0.get(id).unwrap().clone(); self.related(env, &b, depth - 1) }
            Nat if c < 8 => ty(Int),
            Opt(a) => ty(Opt(self.related(env, a, depth - 1))),
            Vec(a) => ty(Vec(self.related(env, a, depth - 1))),
            Record(fs) => {
                let mut out: std::vec::Vec<Field> = vec![];
                for f in fs { if self.rng.gen_bool(0.8) { out.push(Field { id: f.id.clone(), ty: self.related(env, &f.ty, depth - 1) }); } }
                if self.rng.gen_bool(0.4) {
                    let extra = [4u32, 6, 99, 1000].choose(&mut self.rng).cloned().unwrap();
                    if !out.iter().any(|f| f.id.get_id() == extra) {
                        let mut t = if self.rng.gen_bool(0.7) { ty(Opt(self.typ(1))) } else { self.typ(1) };
                        if self.rng.gen_bool(0.3) { if let Some(r) = self.optional_ref(env) { t = r; } }
                        out.push(Field { id: Rc::new(Label::Id(extra)), ty: t });
                    }
                }
                out.sort_by_key(|f| f.id.get_id());
                ty(Record(out))
            }
            Variant(fs) => {
                let mut out: std::vec::Vec<Field> = vec![];
                for f in fs { if self.rng.gen_bool(0.85) { out.push(Field { id: f.id.clone(), ty: self.related(env, &f.ty, depth - 1) }); } }
                if self.rng.gen_bool(0.4) {
                    let extra = [4u32, 6, 99, 1000].choose(&mut self.rng).cloned().unwrap();
                    if !out.iter().any(|f| f.id.get_id() == extra) { out.push(Field { id: Rc::new(Label::Id(extra)), ty: self.typ(1) }); }
                }
                out.sort_by_key(|f| f.id.get_id());
                ty(Variant(out))
            }
            Func(f) => {
                let mut g = f.clone();
                if self.rng.gen_bool(0.3) { g.args.pop(); }
                if self.rng.gen_bool(0.3) { g.args.push(ty(Opt(ty(Nat)))); }
                if self.rng.gen_bool(0.3) && g.modes != vec![FuncMode::Oneway] { g.rets.push(self.typ(1)); }
                if self.rng.gen_bool(0.3) { g.rets.pop(); }
                if self.rng.gen_bool(0.1) { g.modes = vec![FuncMode::Query]; }
                g.args = g.args.iter().map(|a| if self.rng.gen_bool(0.3) { self.related(env, a, depth - 1) } else { a.clone() }).collect();
                ty(Func(g))
            }
            Service(ms) => {
                let mut out = vec![];
                for (n, f) in ms { if self.rng.gen_bool(0.8) { out.push((n.clone(), self.related(env, f, depth - 1))); } }
                let out = out.into_iter().filter(|(_, f)| matches!(f.as_ref(), Func(_))).collect();
                ty(Service(out))
            }
            _ => t.clone(),
        }
    }
}
pub fn args_of(vs: std::vec::Vec<IDLValue>) -> IDLArgs { IDLArgs { args: vs } }

impl G {
    /// a reference to a definition whose body is opt / null / reserved, if the environment has one
    fn optional_ref(&mut self, env: &TypeEnv) -> Option<Type> {
        let names: std::vec::Vec<String> = env.0.iter().filter(|(_, b)| matches!(env.trace_type(b).map(|x| x.as_ref().clone()), Ok(TypeInner::Opt(_)) | Ok(TypeInner::Null) | Ok(TypeInner::Reserved))).map(|(n, _)| n.clone()).collect();
        names.choose(&mut self.rng).map(|n| ty(TypeInner::Var(n.clone())))
    }
    /// a supertype of `t` (one or more upgrade steps of the kinds the spec allows)
    pub fn supertype(&mut self, env: &TypeEnv, t: &Type, depth: usize) -> Type {
        use TypeInner::*;
        let c = self.rng.gen_range(0..14);
        if c == 0 { return ty(Opt(t.clone())); }
        if c == 1 { return ty(Reserved); }
        if depth == 0 { return t.clone(); }
        match t.as_ref() {
            Var(id) if c < 8 => { let b = env.0.get(id).unwrap().clone(); self.supertype(env, &b, depth - 1) }
            Nat if c < 9 => ty(Int),
            Empty => self.typ(1),
            // everything is a subtype of an option: below `opt` the step may also be a breaking one (the value then reads as null)
            Opt(a) => if self.rng.gen_bool(0.35) { ty(Opt(self.related(env, a, depth - 1))) } else { ty(Opt(self.supertype(env, a, depth - 1))) },
            Vec(a) => ty(Vec(self.supertype(env, a, depth - 1))),
            Record(fs) => {
                let mut out: std::vec::Vec<Field> = vec![];
                for f in fs { if self.rng.gen_bool(0.75) { out.push(Field { id: f.id.clone(), ty: self.supertype(env, &f.ty, depth - 1) }); } }
                if self.rng.gen_bool(0.4) {
                    let extra = [4u32, 6, 99, 1000].choose(&mut self.rng).cloned().unwrap();
                    if !fs.iter().any(|f| f.id.get_id() == extra) {
                        let mut t = match self.rng.gen_range(0..3) { 0 => ty(Opt(self.typ(1))), 1 => ty(Null), _ => ty(Reserved) };
                        if self.rng.gen_bool(0.4) { if let Some(r) = self.optional_ref(env) { t = r; } }
                        out.push(Field { id: Rc::new(Label::Id(extra)), ty: t });
                    }
                }
                out.sort_by_key(|f| f.id.get_id());
                ty(Record(out))
            }
            Variant(fs) => {
                let mut out: std::vec::Vec<Field> = fs.iter().map(|f| Field { id: f.id.clone(), ty: self.supertype(env, &f.ty, depth - 1) }).collect();
                if self.rng.gen_bool(0.4) {
                    let extra = [4u32, 6, 99, 1000].choose(&mut self.rng).cloned().unwrap();
                    if !out.iter().any(|f| f.id.get_id() == extra) { out.push(Field { id: Rc::new(Label::Id(extra)), ty: self.typ(1) }); }
                }
                out.sort_by_key(|f| f.id.get_id());
                ty(Variant(out))
            }
            Func(f) => {
                // supertype of a function: takes fewer/narrower arguments?  no: args contravariant (new args may be *sub*types), results covariant
                let mut g = f.clone();
                if self.rng.gen_bool(0.3) { g.args.push(self.typ(1)); }                     // expected has more args: fine only if ... left to the referee
                if self.rng.gen_bool(0.3) { g.rets.pop(); }
                g.rets = g.rets.iter().map(|a| if self.rng.gen_bool(0.4) { self.supertype(env, a, depth - 1) } else { a.clone() }).collect();
                ty(Func(g))
            }
            Service(ms) => {
                let out: std::vec::Vec<(String, Type)> = ms.iter().filter(|_| self.rng.gen_bool(0.8)).map(|(n, f)| (n.clone(), f.clone())).collect();
                ty(Service(out))
            }
            _ => t.clone(),
        }
    }
}
