//! C02 / C07: the step-wise decoding session (IDLDeserialize) driven operation by operation.
//! A case is (environment, message bytes, operations); the record holds the outcome of `new` and of
//! every operation, plus the decoding quota left after each (it may only go down).
use crate::absty::Abs;
use crate::proj::{proj_value, Flat};
use crate::util::*;
use candid::de::IDLDeserialize;
use candid::types::{Type, TypeEnv};
use serde_json::{json, Value};

pub enum Op { Get(String, Type), IsDone, Done }

const QUOTA: usize = 20_000_000;

pub fn run_session(b: &[u8], env: &TypeEnv, ops: &[Op]) -> (Value, Vec<Value>, Vec<Value>) {
    let mut cfg = candid::DecoderConfig::new();
    cfg.set_decoding_quota(QUOTA);
    let mut outs = vec![];
    let mut dq = vec![];
    let de = guard(|| IDLDeserialize::new_with_config(b, &cfg));
    let mut de = match de {
        Ok(Ok(d)) => d,
        Ok(Err(e)) => return (json!({"err": 1, "msg": errmsg(&e)}), outs, dq),
        Err(s) => return (json!({"panic": s}), outs, dq),
    };
    let left = |d: &IDLDeserialize| json!(d.get_config().decoding_quota.map(|x| x as u64).unwrap_or(0));
    let q0 = left(&de);
    for op in ops {
        let o = match op {
            Op::Get(_, t) => match guard(std::panic::AssertUnwindSafe(|| de.get_value_with_type(env, t))) {
                Ok(Ok(v)) => json!({"ok": proj_value(&v)}),
                Ok(Err(e)) => json!({"err": 1, "msg": errmsg(&e)}),
                Err(s) => json!({"panic": s}),
            },
            Op::IsDone => match guard(std::panic::AssertUnwindSafe(|| de.is_done())) { Ok(x) => json!({"b": x}), Err(s) => json!({"panic": s}) },
            Op::Done => match guard(std::panic::AssertUnwindSafe(|| de.done())) {
                Ok(Ok(())) => json!({"done": 1}),
                Ok(Err(e)) => json!({"err": 1, "msg": errmsg(&e)}),
                Err(s) => json!({"panic": s}),
            },
        };
        let stop = o.get("panic").is_some();
        outs.push(o);
        dq.push(left(&de));
        if stop { break; }
    }
    (json!({"ok": 1, "dq": q0}), outs, dq)
}
fn ops_json(ops: &[Op]) -> Value {
    Value::Array(ops.iter().map(|o| match o { Op::Get(id, _) => json!({"op": "get", "t": id}), Op::IsDone => json!({"op": "isdone", "t": ""}), Op::Done => json!({"op": "done", "t": ""}) }).collect())
}
fn record(idx: usize, origin: &str, envj: Value, env: &TypeEnv, b: &[u8], ops: &[Op]) -> Value {
    let (new, outs, dq) = run_session(b, env, ops);
    json!({"idx": idx, "kind": "session", "origin": origin, "env": envj, "blob": bytesj(b), "ops": ops_json(ops), "new": new, "outs": outs, "dq": dq})
}
pub fn tlc_case(idx: usize, c: &Value) -> Value {
    let envj = c["env"].as_object().unwrap();
    let a = Abs::new(envj);
    let env = a.type_env();
    let ops: Vec<Op> = c["ops"].as_array().unwrap().iter().map(|o| match o["op"].as_str().unwrap() {
        "get" => { let id = o["t"].as_str().unwrap().to_string(); let t = a.ty(&id); Op::Get(id, t) }
        "isdone" => Op::IsDone,
        _ => Op::Done,
    }).collect();
    record(idx, "tlc", c["env"].clone(), &env, &jbytes(&c["bytes"]), &ops)
}
/// a random (possibly damaged) message and a random walk through the API: mostly the types the message
/// carries or relatives of them, in order, with is_done / done sprinkled in, sometimes past the end
pub fn rand_case(idx: usize, g: &mut crate::gen::G) -> Value {
    let m = crate::msg::rand_msg(g, 0);
    let mut bytes = m.bytes.clone();
    let origin = match g.rng_range(0, 10) {
        0 | 1 => { crate::msg::mutate(g, &mut bytes); "mutant" }
        2 => { bytes.push([0u8, 1, 0x7f][g.rng_range(0, 3)]); "trailing" }
        3 => { if bytes.len() > 5 { bytes.pop(); } "cut" }
        _ => "valid",
    };
    let mut fl = Flat::new(&m.env);
    let mut ops = vec![];
    let nops = g.rng_range(1, 8);
    let mut at = 0usize;       // which wire argument the next get will meet if all gets so far consumed one
    for _ in 0..nops {
        match g.rng_range(0, 10) {
            0 | 1 => ops.push(Op::IsDone),
            2 => ops.push(Op::Done),
            _ => {
                let t: Type = if at < m.wts.len() {
                    match g.rng_range(0, 6) { 0 => g.typ(1), 1 | 2 => m.wts[at].clone(), _ => g.related(&m.env, &m.wts[at], 3) }
                } else { g.typ(1) };
                let id = fl.ty(&t);
                ops.push(Op::Get(id, t));
                at += 1;
            }
        }
    }
    if g.rng_range(0, 2) == 0 { ops.push(Op::Done); }
    record(idx, origin, json!(fl.nodes), &m.env, &bytes, &ops)
}
pub fn run(o: &Opts) {
    let cases = read_cases(&o.cases);
    let mut out = Out::new();
    let mut idx = 0usize;
    for c in &cases {
        if idx >= o.start { out.emit(&tlc_case(idx, c)); }
        idx += 1;
    }
    let mut g = crate::gen::G::new(o.seed);
    for _ in 0..o.n {
        let v = rand_case(idx, &mut g);
        if idx >= o.start { out.emit(&v); }
        idx += 1;
    }
}
