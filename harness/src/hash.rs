//! C15: every place where a label name is turned into a numeric id.
use crate::util::*;
use candid::types::{Label, Type, TypeEnv, TypeInner};
use candid::{CandidType, Deserialize, IDLArgs};
use rand::prelude::*;
use serde_json::{json, Value};

/// name as a Candid text literal, every char written as \u{..} (harness-side printer)
pub fn lit(s: &str) -> String {
    let mut o = String::from("\"");
    for c in s.chars() { o.push_str(&format!("\\u{{{:x}}}", c as u32)); }
    o.push('"');
    o
}
fn field_id_of_type(t: &Type) -> Option<u32> {
    match t.as_ref() { TypeInner::Record(fs) | TypeInner::Variant(fs) if fs.len() == 1 => Some(fs[0].id.get_id()), _ => None }
}
fn parse_type(src: &str) -> Result<Type, String> {
    let ast: candid_parser::syntax::IDLType = src.parse().map_err(|e: candid_parser::Error| e.to_string())?;
    candid_parser::typing::ast_to_type(&TypeEnv::new(), &ast).map_err(|e| e.to_string())
}

pub fn one(idx: usize, name: &str, h: Option<u32>) -> Value {
    use std::hash::{Hash, Hasher};
    let mut obs = serde_json::Map::new();
    let u = |x: u32| json!({"ok": u32j(x)});
    obs.insert("idl_hash".into(), outcome(guard(|| Ok(u(candid::idl_hash(name))))));
    obs.insert("label".into(), outcome(guard(|| Ok(u(Label::Named(name.to_string()).get_id())))));
    let hid = h.unwrap_or_else(|| candid::idl_hash(name));
    // Label eq / cmp / hash against the numeric label
    obs.insert("label_eq".into(), outcome(guard(|| {
        let a = Label::Named(name.to_string()); let b = Label::Id(hid); let c = Label::Unnamed(hid);
        let hh = |l: &Label| { let mut s = std::collections::hash_map::DefaultHasher::new(); l.hash(&mut s); s.finish() };
        Ok(json!({"ok": (a == b && a == c && a.cmp(&b) == std::cmp::Ordering::Equal && hh(&a) == hh(&b)) as u8}))
    })));
    // .did type with the name
    let tl = lit(name);
    obs.insert("did_record".into(), outcome(guard(|| parse_type(&format!("record {{ {tl} : nat }}")).map(|t| field_id_of_type(&t).map(u).unwrap_or(json!({"err": 2}))))));
    obs.insert("did_variant".into(), outcome(guard(|| parse_type(&format!("variant {{ {tl} : nat }}")).map(|t| field_id_of_type(&t).map(u).unwrap_or(json!({"err": 2}))))));
    // text value with the name
    obs.insert("val_record".into(), outcome(guard(|| {
        let a = candid_parser::parse_idl_args(&format!("(record {{ {tl} = 7 : nat }})")).map_err(|e| e.to_string())?;
        match &a.args[0] { candid::types::value::IDLValue::Record(fs) if fs.len() == 1 => Ok(u(fs[0].id.get_id())), _ => Err("shape".into()) }
    })));
    // wire: encode with the name (named type), bytes must carry the spec id
    obs.insert("wire".into(), outcome(guard(|| {
        let a = candid_parser::parse_idl_args(&format!("(record {{ {tl} = 7 : nat }})")).map_err(|e| e.to_string())?;
        let t = parse_type(&format!("record {{ {tl} : nat }}"))?;
        let b = a.to_bytes_with_types(&TypeEnv::new(), &[t]).map_err(|e| e.to_string())?;
        Ok(json!({"ok": bytesj(&b)}))
    })));
    obs.insert("wire_untyped".into(), outcome(guard(|| {
        let a = candid_parser::parse_idl_args(&format!("(variant {{ {tl} = 7 : nat }})")).map_err(|e| e.to_string())?;
        let b = a.to_bytes().map_err(|e| e.to_string())?;
        Ok(json!({"ok": bytesj(&b)}))
    })));
    // encode with the name, decode against a type written with the numeric id, and vice versa
    obs.insert("name_to_id".into(), outcome(guard(|| {
        let a = candid_parser::parse_idl_args(&format!("(record {{ {tl} = 7 : nat }})")).map_err(|e| e.to_string())?;
        let b = a.to_bytes().map_err(|e| e.to_string())?;
        let t = parse_type(&format!("record {{ {hid} : nat }}"))?;
        let d = IDLArgs::from_bytes_with_types(&b, &TypeEnv::new(), &[t]).map_err(|e| e.to_string())?;
        match &d.args[0] { candid::types::value::IDLValue::Record(fs) if fs.len() == 1 && fs[0].val == candid::types::value::IDLValue::Nat(7u8.into()) => Ok(u(fs[0].id.get_id())), _ => Err("shape".into()) }
    })));
    obs.insert("id_to_name".into(), outcome(guard(|| {
        let a = candid_parser::parse_idl_args(&format!("(variant {{ {hid} = 7 : nat }})")).map_err(|e| e.to_string())?;
        let b = a.to_bytes().map_err(|e| e.to_string())?;
        let t = parse_type(&format!("variant {{ {tl} : nat; zzzz_other : text }}"))?;
        let d = IDLArgs::from_bytes_with_types(&b, &TypeEnv::new(), &[t]).map_err(|e| e.to_string())?;
        match &d.args[0] { candid::types::value::IDLValue::Variant(v) if v.0.val == candid::types::value::IDLValue::Nat(7u8.into()) => Ok(u(v.0.id.get_id())), _ => Err("shape".into()) }
    })));
    // annotate a value carrying the numeric id with a type carrying the name
    obs.insert("annotate".into(), outcome(guard(|| {
        let a = candid_parser::parse_idl_args(&format!("(record {{ {hid} = 7 }})")).map_err(|e| e.to_string())?;
        let t = parse_type(&format!("record {{ {tl} : nat }}"))?;
        let d = a.annotate_types(true, &TypeEnv::new(), &[t]).map_err(|e| e.to_string())?;
        match &d.args[0] { candid::types::value::IDLValue::Record(fs) if fs.len() == 1 => Ok(u(fs[0].id.get_id())), _ => Err("shape".into()) }
    })));
    json!({"idx": idx, "kind": "name", "name": bytesj(name.as_bytes()), "obs": obs})
}

// ---- derive corpus: the Candid names of the fields are fixed here, next to the types
#[derive(CandidType, Deserialize)] struct D1 { a: u8, b: u8, ab: u8, ba: u8 }
#[derive(CandidType, Deserialize)] struct D2 { #[serde(rename = "é")] x: u8, #[serde(rename = "")] y: u8, #[serde(rename = "a b")] z: u8 }
#[derive(CandidType, Deserialize)] struct D3 { r#type: u8, r#fn: u8, r#struct: u8, zz: u8, z: u8 }
#[derive(CandidType, Deserialize)] enum D4 { Ok, Err, #[serde(rename = "ok")] Lower, A(u8), #[serde(rename = "📦")] Box { x: u8 } }
#[derive(CandidType, Deserialize)] struct D5 { _0_: u8, _1: u8, #[serde(rename = "0")] zero: u8, id: u8, nat: u8 }
#[allow(non_camel_case_types)] #[derive(CandidType, Deserialize)] enum D6 { r#type, r#enum, Plain }
#[derive(CandidType, Deserialize)] struct D7 { field_one: u8, #[serde(rename = "fieldTwoB")] field_two_b: u8 }
#[derive(CandidType, Deserialize)] struct D8 { hazel: u8, dnctwrq: u8, qglbucj: u8, lzjrmcf: u8 }

fn derive_case(idx: usize, name: &str, t: Type, names: &[&str]) -> Value {
    let ids: Vec<Value> = match t.as_ref() { TypeInner::Record(fs) | TypeInner::Variant(fs) => fs.iter().map(|f| u32j(f.id.get_id())).collect(), _ => vec![] };
    json!({"idx": idx, "kind": "derive", "ty": name, "names": names.iter().map(|n| bytesj(n.as_bytes())).collect::<Vec<_>>(), "ids": ids})
}

/// colliding labels must be rejected by parsers, macros and the binary header parser
fn collide_case(idx: usize, a: &str, b: &str) -> Value {
    let mut obs = serde_json::Map::new();
    let rej = |r: Result<Result<Value, String>, String>| match r { Ok(Ok(_)) => json!({"accepted": 1}), Ok(Err(_)) => json!({"rejected": 1}), Err(s) => json!({"panic": s}) };
    let (la, lb) = (lit(a), lit(b));
    obs.insert("did_record".into(), rej(guard(|| parse_type(&format!("record {{ {la} : nat; {lb} : nat }}")).map(|_| json!(1)))));
    obs.insert("did_variant".into(), rej(guard(|| parse_type(&format!("variant {{ {la}; {lb} }}")).map(|_| json!(1)))));
    obs.insert("did_prog".into(), rej(guard(|| {
        let p: candid_parser::IDLProg = format!("type t = record {{ {la} : nat; {lb} : text }}; service : {{ f : (t) -> () }}").parse().map_err(|e: candid_parser::Error| e.to_string())?;
        let mut env = TypeEnv::new();
        candid_parser::typing::check_prog(&mut env, &p).map_err(|e| e.to_string()).map(|_| json!(1))
    })));
    obs.insert("val_record".into(), rej(guard(|| candid_parser::parse_idl_args(&format!("(record {{ {la} = 1; {lb} = 2 }})")).map_err(|e| e.to_string()).map(|_| json!(1)))));
    let h = candid::idl_hash(a);
    obs.insert("val_mixed".into(), rej(guard(|| candid_parser::parse_idl_args(&format!("(record {{ {la} = 1; {h} = 2 }})")).map_err(|e| e.to_string()).map(|_| json!(1)))));
    obs.insert("did_mixed".into(), rej(guard(|| parse_type(&format!("record {{ {h} : nat; {lb} : nat }}")).map(|_| json!(1)))));
    // binary header: record with the same id twice, and with descending ids
    let mut leb = vec![]; candid::types::leb128::encode_nat(&mut leb, h as u128).unwrap();
    let mut m = vec![b'D', b'I', b'D', b'L', 1, 0x6c, 2]; m.extend(&leb); m.push(0x7d); m.extend(&leb); m.push(0x7d); m.extend([1, 0, 1, 2]);
    obs.insert("header_dup".into(), rej(guard(|| IDLArgs::from_bytes(&m).map_err(|e| e.to_string()).map(|_| json!(1)))));
    let mut m2 = vec![b'D', b'I', b'D', b'L', 1, 0x6b, 2]; m2.extend(&leb); m2.push(0x7d); m2.extend([0u8, 0x7d]); m2.extend([1, 0, 0, 2]);
    obs.insert("header_desc".into(), rej(guard(|| IDLArgs::from_bytes(&m2).map_err(|e| e.to_string()).map(|_| json!(1)))));
    json!({"idx": idx, "kind": "collide", "a": bytesj(a.as_bytes()), "b": bytesj(b.as_bytes()), "obs": obs})
}
fn macro_cases(idx: &mut usize, out: &mut Out, start: usize) {
    use candid::{record, variant};
    let rej = |r: Result<Type, String>| match r { Ok(_) => json!({"accepted": 1}), Err(s) => json!({"panic": s}) };
    let v0 = json!({"idx": *idx, "kind": "collide", "a": bytesj(b"dnctwrq"), "b": bytesj(b"sbusnjd"), "macro": 1, "obs": {
        "macro_record": rej(guard(|| record!{ dnctwrq: u8::ty(); sbusnjd: u8::ty() })),
        "macro_variant": rej(guard(|| variant!{ qglbucj: u8::ty(); fefribt: u8::ty() })),
        "macro_mixed": rej(guard(|| record!{ dnctwrq: u8::ty(); 2270622235: u8::ty() })),
    }});
    if *idx >= start { out.emit(&v0); }
    *idx += 1;
    let t = record!{ b: u8::ty(); a: u8::ty(); ab: u8::ty() };
    let v1 = derive_case(*idx, "record!", t, &["a", "b", "ab"]);
    if *idx >= start { out.emit(&v1); }
    *idx += 1;
}

const ALPHA: &[char] = &['a', 'b', 'z', 'A', 'Z', '0', '9', '_', ' ', '"', '\\', '\n', '\0', '\u{7f}', '\u{80}', 'é', '\u{7ff}', '\u{800}', '\u{ffff}', '\u{10000}', '📦', '\u{10ffff}'];
pub fn run(o: &Opts) {
    let cases = read_cases(&o.cases);
    let mut out = Out::new();
    let mut idx = 0usize;
    for c in &cases {
        if idx >= o.start {
            let name = String::from_utf8(jbytes(&c["name"])).expect("TLC emits valid UTF-8 only");
            let h = c.get("h").map(|v| ((v[0].as_u64().unwrap() as u32) << 16) | v[1].as_u64().unwrap() as u32);
            out.emit(&one(idx, &name, h));
        }
        idx += 1;
    }
    let corpus: Vec<(&str, Type, Vec<&str>)> = vec![
        ("D1", D1::ty(), vec!["a", "b", "ab", "ba"]), ("D2", D2::ty(), vec!["é", "", "a b"]), ("D3", D3::ty(), vec!["type", "fn", "struct", "zz", "z"]),
        ("D4", D4::ty(), vec!["Ok", "Err", "ok", "A", "📦"]), ("D5", D5::ty(), vec!["_0_", "_1", "0", "id", "nat"]), ("D6", D6::ty(), vec!["type", "enum", "Plain"]),
        ("D7", D7::ty(), vec!["field_one", "fieldTwoB"]), ("D8", D8::ty(), vec!["hazel", "dnctwrq", "qglbucj", "lzjrmcf"]),
    ];
    for (n, t, names) in corpus { if idx >= o.start { out.emit(&derive_case(idx, n, t, &names)); } idx += 1; }
    for (a, b) in [("dnctwrq", "sbusnjd"), ("qglbucj", "fefribt"), ("lzjrmcf", "czwikxp"), ("qlxcfje", "rsxrgyh")] {
        if idx >= o.start { out.emit(&collide_case(idx, a, b)); } idx += 1;
    }
    macro_cases(&mut idx, &mut out, o.start);
    let mut rng = StdRng::seed_from_u64(o.seed);
    // harness-side birthday search for fresh colliding pairs (TLC certifies the collision)
    {
        let mut seen: std::collections::HashMap<u32, String> = Default::default();
        let mut found = 0;
        let hh = |s: &str| -> u32 { let mut x: u32 = 0; for b in s.bytes() { x = x.wrapping_mul(223).wrapping_add(b as u32); } x };
        while found < 3 && seen.len() < 400_000 {
            let s: String = (0..7).map(|_| (b'a' + rng.gen_range(0..26)) as char).collect();
            let v = hh(&s);
            if let Some(p) = seen.get(&v) { if *p != s { if idx >= o.start { out.emit(&collide_case(idx, p, &s)); } idx += 1; found += 1; } }
            seen.insert(v, s);
        }
    }
    for _ in 0..o.n {
        let len = if rng.gen_bool(0.1) { rng.gen_range(5..300) } else { rng.gen_range(0..8) };
        let s: String = (0..len).map(|_| if rng.gen_bool(0.7) { *ALPHA.choose(&mut rng).unwrap() } else { loop { if let Some(c) = char::from_u32(rng.gen_range(0..0x110000)) { break c; } } }).collect();
        if idx >= o.start { out.emit(&one(idx, &s, None)); }
        idx += 1;
    }
}
