//! C03: the encoder as an object with a history (IDLBuilder): arguments of three kinds added in any order -
//! native Rust values, untyped values with inferred types, untyped values with a declared type (well- and
//! ill-typed) - and `serialize_to_vec` called at any point, more than once.  A twin builder receives the
//! same operations (determinism).  One record per history; the outcome of every operation is logged.
use crate::absty::Abs;
use crate::corpus::Decl;
use crate::proj::proj_value;
use crate::util::*;
use candid::ser::IDLBuilder;
use rand::SeedableRng;
use serde_json::{json, Map, Value};

/// type names without module paths: `vec::Vec<option::Option<u8>>` -> `Vec<Option<u8>>`
pub fn short(n: &str) -> String {
    let mut out = String::new();
    let mut word = String::new();
    let cs: Vec<char> = n.chars().collect();
    let mut i = 0;
    while i < cs.len() {
        let c = cs[i];
        if c.is_alphanumeric() || c == '_' { word.push(c); i += 1; }
        else if c == ':' && i + 1 < cs.len() && cs[i + 1] == ':' { word.clear(); i += 2; }
        else { out.push_str(&word); word.clear(); out.push(c); i += 1; }
    }
    out.push_str(&word);
    out
}
fn ser(b: &mut IDLBuilder) -> Result<Vec<u8>, Value> {
    match guard(std::panic::AssertUnwindSafe(|| b.serialize_to_vec())) { Ok(Ok(x)) => Ok(x), Ok(Err(e)) => Err(json!({"serr": e.to_string()})), Err(s) => Err(json!({"panic": s})) }
}
pub fn run_history(idx: usize, origin: &str, envj: &Map<String, Value>, ops: &[Value], seed: u64) -> Value {
    let a = Abs::new(envj);
    let env = a.type_env();
    let reg = crate::native::registry();
    let mut rng = rand::rngs::StdRng::seed_from_u64(seed ^ (idx as u64).wrapping_mul(0x9e3779b97f4a7c15));
    let mut d = Decl::new();
    let mut b = IDLBuilder::new();
    let mut b2 = IDLBuilder::new();
    let mut lops = vec![];
    let mut outs = vec![];
    for o in ops {
        let mut lo = o.clone();
        let out = match o["op"].as_str().unwrap_or("") {
            "typed" => {
                let id = o["t"].as_str().unwrap();
                let t = a.ty(id);
                let v = crate::absval::to_idl(&o["v"], &env, &t);
                lo["v"] = proj_value(&v);       // what was really built
                let r = guard(std::panic::AssertUnwindSafe(|| { b.value_arg_with_type(&v, &env, &t)?; b2.value_arg_with_type(&v, &env, &t).map(|_| ()) }));
                match r { Ok(Ok(())) => json!({"ok": 1}), Ok(Err(e)) => json!({"err": 1, "msg": errmsg(&e)}), Err(s) => json!({"panic": s}) }
            }
            "untyped" => {
                let id = o["t"].as_str().unwrap();
                let t = a.ty(id);
                // value_arg infers the type from the value: its documented input is a value as the text parser
                // produces it (variant index 0, homogeneous vectors)
                let v = crate::msg::normalize(&crate::absval::to_idl(&o["v"], &env, &t));
                lo["v"] = proj_value(&v);
                if !crate::msg::homogeneous(&v) { lops.push(lo); outs.push(json!({"err": 1, "msg": "skipped: not homogeneous"})); continue; }
                let r = guard(std::panic::AssertUnwindSafe(|| { b.value_arg(&v)?; b2.value_arg(&v).map(|_| ()) }));
                match r { Ok(Ok(())) => json!({"ok": 1}), Ok(Err(e)) => json!({"err": 1, "msg": errmsg(&e)}), Err(s) => json!({"panic": s}) }
            }
            "native" => {
                let n = o["n"].as_str().unwrap();
                match reg.iter().find(|e| e.name() == n || short(&e.name()) == n) {
                    None => json!({"err": 1, "msg": "no such corpus type"}),
                    Some(e) => {
                        let tid = e.decl(&mut d);
                        lo["t"] = json!(tid);
                        match e.arg(&mut b, &mut b2, &mut rng) { Ok(v) => { lo["v"] = v; json!({"ok": 1}) } Err(m) => if m.starts_with("panic") { json!({"panic": m}) } else { json!({"err": 1, "msg": m}) } }
                    }
                }
            }
            _ => { let x = ser(&mut b); let y = ser(&mut b2); match (x, y) { (Ok(x), Ok(y)) => json!({"bytes": bytesj(&x), "twin": bytesj(&y)}), (Ok(x), Err(_)) => json!({"bytes": bytesj(&x), "twin": []}), (Err(e), _) => e } }
        };
        lops.push(lo);
        outs.push(out);
    }
    let mut full = envj.clone();
    for (k, v) in d.nodes { full.entry(k).or_insert(v); }
    json!({"idx": idx, "kind": "builder", "origin": origin, "env": full, "ops": lops, "outs": outs})
}
/// random histories: corpus types of every family mixed with random typed / untyped values
pub fn rand_case(idx: usize, g: &mut crate::gen::G, names: &[String], seed: u64) -> Value {
    let m = crate::msg::rand_msg(g, 1);
    let mut fl = crate::proj::Flat::new(&m.env);
    let tids: Vec<String> = m.wts.iter().map(|t| fl.ty(t)).collect();
    let nops = g.rng_range(1, 7);
    let mut ops = vec![];
    for _ in 0..nops {
        match g.rng_range(0, 10) {
            0 | 1 | 2 => { let i = g.rng_range(0, tids.len()); ops.push(json!({"op": "typed", "t": tids[i], "v": proj_value(&m.args.args[i])})); }
            3 => { let i = g.rng_range(0, tids.len()); let j = g.rng_range(0, tids.len()); ops.push(json!({"op": "typed", "t": tids[i], "v": proj_value(&m.args.args[j])})); }   // often ill-typed
            4 => { let i = g.rng_range(0, tids.len()); ops.push(json!({"op": "untyped", "t": tids[i], "v": proj_value(&m.args.args[i])})); }
            5 | 6 | 7 => ops.push(json!({"op": "native", "n": names[g.rng_range(0, names.len())]})),
            _ => ops.push(json!({"op": "ser"})),
        }
    }
    ops.push(json!({"op": "ser"}));
    let envj: Map<String, Value> = fl.nodes.iter().map(|(k, v)| (k.clone(), v.clone())).collect();
    run_history(idx, "rand", &envj, &ops, seed)
}
pub fn run(o: &Opts) {
    let o2 = Opts { cases: o.cases.clone(), seed: o.seed, n: o.n, start: o.start, extra: o.extra.clone() };
    std::thread::Builder::new().stack_size(256 << 20).spawn(move || run_(&o2)).unwrap().join().unwrap();
}
fn run_(o: &Opts) {
    let cases = read_cases(&o.cases);
    let mut out = Out::new();
    let mut idx = 0usize;
    for c in &cases {
        if idx >= o.start { out.emit(&run_history(idx, "tlc", c["env"].as_object().unwrap(), c["ops"].as_array().unwrap(), o.seed)); }
        idx += 1;
    }
    let names: Vec<String> = crate::native::registry().iter().map(|e| e.name()).collect();
    let mut g = crate::gen::G::new(o.seed);
    for _ in 0..o.n {
        let v = rand_case(idx, &mut g, &names, o.seed);
        if idx >= o.start { out.emit(&v); }
        idx += 1;
    }
}
