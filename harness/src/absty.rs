//! Abstract type graphs (JSON, DESIGN.md §3) -> real `Type`/`TypeEnv` values and `.did` text.
//! The renderer is the harness's own (trivial) printer, so the crate's pretty-printer is not
//! part of the path that feeds the code under test.
use crate::util::*;
use candid::types::{Field, FuncMode, Function, Label, Type, TypeEnv, TypeInner};
use serde_json::{Map, Value};
use std::collections::{BTreeMap, BTreeSet};
use std::rc::Rc;

pub fn prim(k: &str) -> Option<TypeInner> {
    use TypeInner::*;
    Some(match k {
        "null" => Null, "bool" => Bool, "nat" => Nat, "int" => Int, "nat8" => Nat8, "nat16" => Nat16, "nat32" => Nat32, "nat64" => Nat64,
        "int8" => Int8, "int16" => Int16, "int32" => Int32, "int64" => Int64, "float32" => Float32, "float64" => Float64, "text" => Text,
        "reserved" => Reserved, "empty" => Empty, "principal" => Principal, _ => return None,
    })
}
pub fn jid(v: &Value) -> u32 { ((v[0].as_u64().unwrap() as u32) << 16) | (v[1].as_u64().unwrap() as u32) }

pub struct Abs<'a> {
    pub env: &'a Map<String, Value>,
    /// definition id ("v_X") -> name used in the real environment
    pub names: BTreeMap<String, String>,
    /// definitions to expand in place instead of referencing by name
    pub inline: BTreeSet<String>,
    pub reverse: bool,
}
impl<'a> Abs<'a> {
    pub fn new(env: &'a Map<String, Value>) -> Self {
        let mut names = BTreeMap::new();
        for k in env.keys() { if let Some(n) = k.strip_prefix("v_") { names.insert(k.clone(), n.to_string()); } }
        Abs { env, names, inline: BTreeSet::new(), reverse: false }
    }
    pub fn defs(&self) -> Vec<String> { self.names.keys().cloned().collect() }
    fn refs(&self, id: &str) -> Vec<String> {
        let n = &self.env[id];
        let mut out = vec![];
        for key in ["a", "t"] { if let Some(s) = n.get(key).and_then(|x| x.as_str()) { out.push(s.to_string()); } }
        for key in ["fs", "ms"] { if let Some(a) = n.get(key).and_then(|x| x.as_array()) { for f in a { out.push(f["t"].as_str().unwrap().to_string()); } } }
        for key in ["args", "rets"] { if let Some(a) = n.get(key).and_then(|x| x.as_array()) { for f in a { out.push(f.as_str().unwrap().to_string()); } } }
        out
    }
    pub fn recursive(&self, id: &str) -> bool {
        let mut seen = BTreeSet::new();
        let mut todo = self.refs(id);
        while let Some(x) = todo.pop() {
            if x == id { return true; }
            if seen.insert(x.clone()) && self.env.contains_key(&x) { todo.extend(self.refs(&x)); }
        }
        false
    }
    /// expand every non-recursive definition in place
    pub fn inline_nonrecursive(&mut self) {
        for d in self.defs() { if !self.recursive(&d) { self.inline.insert(d); } }
    }
    pub fn ty(&self, id: &str) -> Type {
        if let Some(p) = id.strip_prefix("p_") { return prim(p).expect("prim").into(); }
        if id.starts_with("v_") && !self.inline.contains(id) { return TypeInner::Var(self.names[id].clone()).into(); }
        self.body(id)
    }
    pub fn body(&self, id: &str) -> Type {
        let n = &self.env[id];
        let k = n["k"].as_str().unwrap();
        let t: TypeInner = match k {
            "opt" => TypeInner::Opt(self.ty(n["a"].as_str().unwrap())),
            "vec" => TypeInner::Vec(self.ty(n["a"].as_str().unwrap())),
            "alias" => return self.ty(n["a"].as_str().unwrap()),
            "record" | "variant" => {
                let fs: Vec<Field> = n["fs"].as_array().unwrap().iter().map(|f| Field { id: Rc::new(Label::Id(jid(&f["id"]))), ty: self.ty(f["t"].as_str().unwrap()) }).collect();
                if k == "record" { TypeInner::Record(fs) } else { TypeInner::Variant(fs) }
            }
            "func" => TypeInner::Func(self.func(n)),
            "service" => TypeInner::Service(n["ms"].as_array().unwrap().iter().map(|m| (String::from_utf8(jbytes(&m["name"])).unwrap(), self.ty(m["t"].as_str().unwrap()))).collect()),
            p => prim(p).unwrap_or_else(|| panic!("kind {p}")),
        };
        t.into()
    }
    fn func(&self, n: &Value) -> Function {
        let seq = |k: &str| -> Vec<Type> { n[k].as_array().unwrap().iter().map(|a| self.ty(a.as_str().unwrap())).collect() };
        let modes = n["modes"].as_array().unwrap().iter().map(|m| match m.as_str().unwrap() { "query" => FuncMode::Query, "oneway" => FuncMode::Oneway, _ => FuncMode::CompositeQuery }).collect();
        Function { modes, args: seq("args"), rets: seq("rets") }
    }
    pub fn type_env(&self) -> TypeEnv {
        let mut e = TypeEnv::new();
        for d in self.defs() { e.0.insert(self.names[&d].clone(), self.body(&d)); }
        e
    }
    // ---------------- text
    pub fn txt(&self, id: &str) -> String {
        if let Some(p) = id.strip_prefix("p_") { return p.to_string(); }
        if id.starts_with("v_") && !self.inline.contains(id) { return self.names[id].clone(); }
        self.body_txt(id)
    }
    fn ord<'b, T>(&self, v: &'b [T]) -> Vec<&'b T> { let mut r: Vec<&T> = v.iter().collect(); if self.reverse { r.reverse(); } r }
    pub fn func_txt(&self, n: &Value) -> String {
        let seq = |k: &str| -> String { n[k].as_array().unwrap().iter().map(|a| self.txt(a.as_str().unwrap())).collect::<Vec<_>>().join(", ") };
        let modes: Vec<String> = n["modes"].as_array().unwrap().iter().map(|m| m.as_str().unwrap().to_string()).collect();
        format!("({}) -> ({}) {}", seq("args"), seq("rets"), modes.join(" "))
    }
    pub fn serv_txt(&self, n: &Value) -> String {
        let ms = n["ms"].as_array().unwrap();
        let items: Vec<String> = self.ord(ms).iter().map(|m| {
            let t = m["t"].as_str().unwrap();
            let name = crate::hash::lit(&String::from_utf8(jbytes(&m["name"])).unwrap());
            let body = if self.env.get(t).map(|x| x["k"] == "func").unwrap_or(false) && !(t.starts_with("v_") && !self.inline.contains(t)) { self.func_txt(&self.env[t]) } else { self.txt(t) };
            format!("{name} : {body}")
        }).collect();
        format!("{{ {} }}", items.join("; "))
    }
    pub fn body_txt(&self, id: &str) -> String {
        let n = &self.env[id];
        let k = n["k"].as_str().unwrap();
        match k {
            "opt" | "vec" => format!("{k} {}", self.txt(n["a"].as_str().unwrap())),
            "alias" => self.txt(n["a"].as_str().unwrap()),
            "record" | "variant" => {
                let fs = n["fs"].as_array().unwrap();
                let items: Vec<String> = self.ord(fs).iter().map(|f| format!("{} : {}", jid(&f["id"]), self.txt(f["t"].as_str().unwrap()))).collect();
                format!("{k} {{ {} }}", items.join("; "))
            }
            "func" => format!("func {}", self.func_txt(n)),
            "service" => format!("service {}", self.serv_txt(n)),
            p => p.to_string(),
        }
    }
    pub fn defs_txt(&self) -> String {
        let ds = self.defs();
        self.ord(&ds).iter().map(|d| format!("type {} = {};\n", self.names[*d], self.body_txt(d))).collect()
    }
}
