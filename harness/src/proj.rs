//! Projections of DESIGN.md §3: type graphs (every occurrence a node id) and abstract values.
use crate::util::*;
use candid::types::value::{IDLArgs, IDLValue};
use candid::types::{Type, TypeEnv, TypeInner};
use serde_json::{json, Value};
use std::collections::BTreeMap;

pub struct Flat<'a> {
    /// prefix for node ids (two environments can be projected into one graph)
    pub pfx: String,
    pub env: &'a TypeEnv,
    pub nodes: BTreeMap<String, Value>,
    pub cnt: usize,
}
impl<'a> Flat<'a> {
    pub fn new(env: &'a TypeEnv) -> Self {
        Flat { pfx: String::new(), env, nodes: BTreeMap::new(), cnt: 0 }
    }
    pub fn with_prefix(env: &'a TypeEnv, pfx: &str) -> Self { Flat { pfx: pfx.to_string(), env, nodes: BTreeMap::new(), cnt: 0 } }
    fn fresh(&mut self) -> String {
        self.cnt += 1;
        format!("{}n{}", self.pfx, self.cnt)
    }
    pub fn ty(&mut self, t: &Type) -> String {
        use TypeInner::*;
        let prim = |s: &str, me: &mut Self| {
            let id = format!("p_{s}");
            me.nodes.entry(id.clone()).or_insert_with(|| json!({"k": s}));
            id
        };
        match t.as_ref() {
            Null => prim("null", self),
            Bool => prim("bool", self),
            Nat => prim("nat", self),
            Int => prim("int", self),
            Nat8 => prim("nat8", self),
            Nat16 => prim("nat16", self),
            Nat32 => prim("nat32", self),
            Nat64 => prim("nat64", self),
            Int8 => prim("int8", self),
            Int16 => prim("int16", self),
            Int32 => prim("int32", self),
            Int64 => prim("int64", self),
            Float32 => prim("float32", self),
            Float64 => prim("float64", self),
            Text => prim("text", self),
            Reserved => prim("reserved", self),
            Empty => prim("empty", self),
            Principal => prim("principal", self),
            Future => prim("future", self),
            Unknown => prim("unknown", self),
            Var(name) => {
                let id = format!("{}v_{name}", self.pfx);
                if !self.nodes.contains_key(&id) {
                    self.nodes.insert(id.clone(), json!({"k":"pending"}));
                    let body = match self.env.0.get(name) {
                        Some(b) => b.clone(),
                        None => {
                            self.nodes.insert(id.clone(), json!({"k":"undefined"}));
                            return id;
                        }
                    };
                    let node = match body.as_ref() {
                        Var(_) | Null | Bool | Nat | Int | Nat8 | Nat16 | Nat32 | Nat64 | Int8
                        | Int16 | Int32 | Int64 | Float32 | Float64 | Text | Reserved | Empty
                        | Principal | Future | Unknown | Knot(_) => {
                            let a = self.ty(&body);
                            json!({"k":"alias","a":a})
                        }
                        _ => self.body(&body),
                    };
                    self.nodes.insert(id.clone(), node);
                }
                id
            }
            Knot(id) => {
                let t = candid::types::internal::find_type(id).unwrap();
                let key = format!("k_{}", id.name.replace(|c: char| !c.is_ascii_alphanumeric(), "_"));
                if !self.nodes.contains_key(&key) {
                    self.nodes.insert(key.clone(), json!({"k":"pending"}));
                    let node = self.body(&t);
                    self.nodes.insert(key.clone(), node);
                }
                key
            }
            _ => {
                let id = self.fresh();
                let node = self.body(t);
                self.nodes.insert(id.clone(), node);
                id
            }
        }
    }
    fn body(&mut self, t: &Type) -> Value {
        use TypeInner::*;
        match t.as_ref() {
            Opt(a) => {
                let a = self.ty(a);
                json!({"k":"opt","a":a})
            }
            Vec(a) => {
                let a = self.ty(a);
                json!({"k":"vec","a":a})
            }
            Record(fs) | Variant(fs) => {
                let k = if matches!(t.as_ref(), Record(_)) { "record" } else { "variant" };
                let mut v = vec![];
                for f in fs {
                    let tid = self.ty(&f.ty);
                    v.push(json!({"id": u32j(f.id.get_id()), "t": tid}));
                }
                json!({"k":k,"fs":v})
            }
            Func(f) => {
                let args: std::vec::Vec<_> = f.args.iter().map(|a| self.ty(a)).collect();
                let rets: std::vec::Vec<_> = f.rets.iter().map(|a| self.ty(a)).collect();
                let modes: std::vec::Vec<_> = f
                    .modes
                    .iter()
                    .map(|m| match m {
                        candid::types::FuncMode::Query => "query",
                        candid::types::FuncMode::Oneway => "oneway",
                        candid::types::FuncMode::CompositeQuery => "composite_query",
                    })
                    .collect();
                json!({"k":"func","args":args,"rets":rets,"modes":modes})
            }
            Service(ms) => {
                let mut v = vec![];
                for (name, ty) in ms {
                    let tid = self.ty(ty);
                    v.push(json!({"name": bytesj(name.as_bytes()), "t": tid}));
                }
                json!({"k":"service","ms":v})
            }
            Class(args, s) => {
                let args: std::vec::Vec<_> = args.iter().map(|a| self.ty(a)).collect();
                let s = self.ty(s);
                json!({"k":"class","args":args,"t":s})
            }
            _ => {
                let a = self.ty(t);
                json!({"k":"alias","a":a})
            }
        }
    }
}

pub fn proj_value(v: &IDLValue) -> Value {
    use IDLValue::*;
    match v {
        Null => json!({"k":"null"}),
        Bool(b) => json!({"k":"bool","b": if *b {1} else {0}}),
        Text(s) => json!({"k":"text","cps": s.chars().map(|c| c as u32).collect::<std::vec::Vec<_>>()}),
        Number(s) => num(&s.parse::<num_bigint::BigInt>().unwrap()),
        Int(i) => num(&i.0),
        Nat(n) => num(&num_bigint::BigInt::from(n.0.clone())),
        Nat8(n) => json!({"k":"fix","bytes": bytesj(&n.to_le_bytes())}),
        Nat16(n) => json!({"k":"fix","bytes": bytesj(&n.to_le_bytes())}),
        Nat32(n) => json!({"k":"fix","bytes": bytesj(&n.to_le_bytes())}),
        Nat64(n) => json!({"k":"fix","bytes": bytesj(&n.to_le_bytes())}),
        Int8(n) => json!({"k":"fix","bytes": bytesj(&n.to_le_bytes())}),
        Int16(n) => json!({"k":"fix","bytes": bytesj(&n.to_le_bytes())}),
        Int32(n) => json!({"k":"fix","bytes": bytesj(&n.to_le_bytes())}),
        Int64(n) => json!({"k":"fix","bytes": bytesj(&n.to_le_bytes())}),
        Float32(n) => json!({"k":"fix","bytes": bytesj(&n.to_le_bytes())}),
        Float64(n) => json!({"k":"fix","bytes": bytesj(&n.to_le_bytes())}),
        None => json!({"k":"null"}),
        Reserved => json!({"k":"reserved"}),
        Opt(v) => json!({"k":"opt","v": proj_value(v)}),
        Vec(vs) => json!({"k":"vec","vs": vs.iter().map(proj_value).collect::<std::vec::Vec<_>>()}),
        Blob(b) => json!({"k":"vec","vs": b.iter().map(|x| json!({"k":"fix","bytes":[x]})).collect::<std::vec::Vec<_>>()}),
        Record(fs) => {
            let mut fs: std::vec::Vec<_> = fs.iter().map(|f| (f.id.get_id(), proj_value(&f.val))).collect();
            fs.sort_by_key(|x| x.0);
            json!({"k":"rec","fs": fs.into_iter().map(|(i,v)| json!({"id":u32j(i),"v":v})).collect::<std::vec::Vec<_>>()})
        }
        Variant(v) => json!({"k":"var","id": u32j(v.0.id.get_id()), "v": proj_value(&v.0.val)}),
        Principal(p) => json!({"k":"principal","b": bytesj(p.as_slice())}),
        Service(p) => json!({"k":"service","b": bytesj(p.as_slice())}),
        Func(p, m) => json!({"k":"func","b": bytesj(p.as_slice()), "m": bytesj(m.as_bytes())}),
    }
}
pub fn proj_args(a: &IDLArgs) -> Value {
    Value::Array(a.args.iter().map(proj_value).collect())
}

