//! C09: every (S)LEB128 decoder/encoder of the crate, standalone and inside messages.
use crate::util::*;
use candid::{Decode, Encode, Int, Nat};
use rand::prelude::*;
use serde_json::{json, Value};
use std::collections::BTreeMap;
use std::io::Cursor;

fn standalone<T>(b: &[u8], f: impl FnOnce(&mut Cursor<&[u8]>) -> candid::Result<T>, pj: impl FnOnce(&T) -> Value) -> Value {
    let mut c = Cursor::new(b);
    match guard(|| f(&mut c)) {
        Ok(Ok(v)) => json!({"ok": pj(&v), "n": c.position()}),
        Ok(Err(_)) => json!({"err": 1}),
        Err(site) => json!({"panic": site}),
    }
}
fn msg<T>(bytes: &[u8], f: impl FnOnce(&[u8]) -> candid::Result<T>, pj: impl FnOnce(&T) -> Value) -> Value {
    match guard(|| f(bytes)) {
        Ok(Ok(v)) => json!({"ok": pj(&v)}),
        Ok(Err(_)) => json!({"err": 1}),
        Err(site) => json!({"panic": site}),
    }
}
fn pn(n: &Nat) -> Value { unum(&n.0) }
fn pi(i: &Int) -> Value { num(&i.0) }
fn with(prefix: &[u8], b: &[u8]) -> Vec<u8> { let mut v = prefix.to_vec(); v.extend_from_slice(b); v }

pub fn one(idx: usize, b: &[u8]) -> Value {
    use num_bigint::{BigInt, BigUint};
    let mut obs = serde_json::Map::new();
    obs.insert("nat".into(), standalone(b, |c| Nat::decode(c), pn));
    obs.insert("int".into(), standalone(b, |c| Int::decode(c), pi));
    obs.insert("u128".into(), standalone(b, |c| candid::types::leb128::decode_nat(c), |v| unum(&BigUint::from(*v))));
    obs.insert("i128".into(), standalone(b, |c| candid::types::leb128::decode_int(c), |v| num(&BigInt::from(*v))));
    // inside messages: DIDL, empty table, one argument of type nat (0x7d) / int (0x7c)
    let mnat = with(b"DIDL\x00\x01\x7d", b);
    let mint = with(b"DIDL\x00\x01\x7c", b);
    obs.insert("m_nat".into(), msg(&mnat, |m| Decode!(m, Nat), pn));
    obs.insert("m_int".into(), msg(&mint, |m| Decode!(m, Int), pi));
    obs.insert("m_natint".into(), msg(&mnat, |m| Decode!(m, Int), pi));
    obs.insert("m_u128".into(), msg(&mnat, |m| Decode!(m, u128), |v| unum(&BigUint::from(*v))));
    obs.insert("m_i128".into(), msg(&mint, |m| Decode!(m, i128), |v| num(&BigInt::from(*v))));
    obs.insert("m_valnat".into(), msg(&mnat, |m| candid::IDLArgs::from_bytes(m), |a| match &a.args[0] { candid::types::value::IDLValue::Nat(n) => pn(n), _ => json!("?") }));
    obs.insert("m_valint".into(), msg(&mint, |m| candid::IDLArgs::from_bytes(m), |a| match &a.args[0] { candid::types::value::IDLValue::Int(n) => pi(n), _ => json!("?") }));
    // vectors: table [vec nat] / [vec int], two elements, the string twice
    let two = |op: u8| { let mut v = vec![b'D', b'I', b'D', b'L', 1, 0x6d, op, 1, 0, 2]; v.extend_from_slice(b); v.extend_from_slice(b); v };
    obs.insert("m_vecnat".into(), msg(&two(0x7d), |m| Decode!(m, Vec<Nat>), |v| json!(v.iter().map(pn).collect::<Vec<_>>())));
    obs.insert("m_vecint".into(), msg(&two(0x7c), |m| Decode!(m, Vec<Int>), |v| json!(v.iter().map(pi).collect::<Vec<_>>())));
    obs.insert("m_vecnatint".into(), msg(&two(0x7d), |m| Decode!(m, Vec<Int>), |v| json!(v.iter().map(pi).collect::<Vec<_>>())));
    // maps: vec record { text; int } with key "a";  vec record { nat8; nat } with key 7
    let mut mt = vec![b'D', b'I', b'D', b'L', 2, 0x6d, 1, 0x6c, 2, 0, 0x71, 1, 0x7c, 1, 0, 1, 1, b'a']; mt.extend_from_slice(b);
    obs.insert("m_maptextint".into(), msg(&mt, |m| Decode!(m, BTreeMap<String, Int>), |v| v.get("a").map(pi).unwrap_or(json!("?"))));
    let mut mu = vec![b'D', b'I', b'D', b'L', 2, 0x6d, 1, 0x6c, 2, 0, 0x7b, 1, 0x7d, 1, 0, 1, 7]; mu.extend_from_slice(b);
    obs.insert("m_mapu8nat".into(), msg(&mu, |m| Decode!(m, BTreeMap<u8, Nat>), |v| v.get(&7).map(pn).unwrap_or(json!("?"))));
    // opt nat -> Option<Nat>
    let mut mo = vec![b'D', b'I', b'D', b'L', 1, 0x6e, 0x7d, 1, 0, 1]; mo.extend_from_slice(b);
    obs.insert("m_optnat".into(), msg(&mo, |m| Decode!(m, Option<Nat>), |v| v.as_ref().map(pn).unwrap_or(json!("none"))));

    // encoders: re-encode what the exact decoders returned (spec: minimal form)
    let mut enc = serde_json::Map::new();
    let mut c = Cursor::new(b);
    if let Ok(Ok(n)) = guard(|| Nat::decode(&mut c)) {
        enc.insert("nat".into(), outcome(guard(|| { let mut w = vec![]; n.encode(&mut w).map_err(|e| e.to_string())?; Ok(bytesj(&w)) })));
        enc.insert("m_nat".into(), outcome(guard(|| { let w = Encode!(&n).map_err(|e| e.to_string())?; Ok(bytesj(&w[7..])) })));
        if let Ok(x) = u128::try_from(n.0.clone()) {
            enc.insert("u128".into(), outcome(guard(|| { let mut w = vec![]; candid::types::leb128::encode_nat(&mut w, x).map_err(|e| e.to_string())?; Ok(bytesj(&w)) })));
            enc.insert("m_u128".into(), outcome(guard(|| { let w = Encode!(&x).map_err(|e| e.to_string())?; Ok(bytesj(&w[7..])) })));
        }
        if let Ok(x) = u64::try_from(n.0.clone()) {
            enc.insert("m_natu64".into(), outcome(guard(|| { let w = Encode!(&Nat::from(x)).map_err(|e| e.to_string())?; Ok(bytesj(&w[7..])) })));
        }
    }
    let mut c = Cursor::new(b);
    if let Ok(Ok(n)) = guard(|| Int::decode(&mut c)) {
        enc.insert("int".into(), outcome(guard(|| { let mut w = vec![]; n.encode(&mut w).map_err(|e| e.to_string())?; Ok(bytesj(&w)) })));
        enc.insert("m_int".into(), outcome(guard(|| { let w = Encode!(&n).map_err(|e| e.to_string())?; Ok(bytesj(&w[7..])) })));
        if let Ok(x) = i128::try_from(n.0.clone()) {
            enc.insert("i128".into(), outcome(guard(|| { let mut w = vec![]; candid::types::leb128::encode_int(&mut w, x).map_err(|e| e.to_string())?; Ok(bytesj(&w)) })));
            enc.insert("m_i128".into(), outcome(guard(|| { let w = Encode!(&x).map_err(|e| e.to_string())?; Ok(bytesj(&w[7..])) })));
        }
    }
    json!({"idx": idx, "b": bytesj(b), "obs": obs, "enc": enc})
}

fn random_string(rng: &mut StdRng) -> Vec<u8> {
    let kind = rng.gen_range(0..10);
    let len = match kind { 0..=3 => rng.gen_range(1..12), 4..=6 => rng.gen_range(8..12), 7 => rng.gen_range(17..22), _ => rng.gen_range(1..40) };
    let mut v: Vec<u8> = (0..len).map(|_| match rng.gen_range(0..6) { 0 => 0x80, 1 => 0xff, 2 => 0x81, 3 => 0xc0, _ => rng.gen::<u8>() | 0x80 }).collect();
    let last = *[0x00u8, 0x01, 0x02, 0x03, 0x3f, 0x40, 0x41, 0x7e, 0x7f].choose(rng).unwrap();
    match rng.gen_range(0..12) {
        0 => {}                                   // unterminated
        1 => { v[len - 1] = rng.gen::<u8>() & 0x7f; v.push(rng.gen()); }  // trailing garbage
        2 => { v[len - 1] = rng.gen::<u8>() & 0x7f; }
        _ => { v[len - 1] = last; }
    }
    v
}
/// integers +-2^k +- {0,1}, encoded minimally by a local encoder (harness-side, no crate code) and padded
fn boundary(rng: &mut StdRng) -> Vec<u8> {
    use num_bigint::BigInt;
    let k = rng.gen_range(0..200u32);
    let mut v = BigInt::from(1) << k;
    v += BigInt::from(rng.gen_range(-1..=1));
    if rng.gen_bool(0.5) { v = -v; }
    let signed = rng.gen_bool(0.5) || v.sign() == num_bigint::Sign::Minus;
    let mut out = vec![];
    let mut x = v.clone();
    loop {
        let byte = (&x & BigInt::from(0x7f)).to_u32_digits().1.first().cloned().unwrap_or(0) as u8;
        x >>= 7;
        let done = if signed { (x == BigInt::from(0) && byte & 0x40 == 0) || (x == BigInt::from(-1) && byte & 0x40 != 0) } else { x == BigInt::from(0) };
        if done { out.push(byte); break; } else { out.push(byte | 0x80); }
    }
    // padding groups
    let pad = rng.gen_range(0..4);
    if pad > 0 {
        let neg = signed && v.sign() == num_bigint::Sign::Minus;
        let n = out.len();
        out[n - 1] |= 0x80;
        for i in 0..pad { out.push(if neg { 0x7f } else { 0 } | if i + 1 < pad { 0x80 } else { 0 }); }
    }
    out
}

pub fn run(o: &Opts) {
    let cases = read_cases(&o.cases);
    let mut out = Out::new();
    let mut idx = 0usize;
    for c in &cases {
        if idx >= o.start { out.emit(&one(idx, &jbytes(&c["b"]))); }
        idx += 1;
    }
    let mut rng = StdRng::seed_from_u64(o.seed);
    for i in 0..o.n {
        let b = if i % 3 == 0 { boundary(&mut rng) } else { random_string(&mut rng) };
        if idx >= o.start { out.emit(&one(idx, &b)); }
        idx += 1;
    }
}
