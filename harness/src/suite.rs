//! Specification sanity: the cross-implementation conformance suite test/*.test.did, projected
//! so that Wire.tla/Coerce.tla can be judged against what the files assert (independent of the crate's decoder).
use crate::proj::{proj_args, Flat};
use crate::util::*;
use candid::types::value::IDLArgs;
use candid::types::{Type, TypeEnv};
use candid_parser::test::{Input, Test};
use candid_parser::typing::{ast_to_type, check_prog};
use candid_parser::IDLProg;
use serde_json::{json, Map, Value};

pub fn decode_outcome(b: &[u8], env: &TypeEnv, types: &[Type]) -> Value {
    let r = guard(|| { let mut cfg = candid::DecoderConfig::new(); cfg.set_decoding_quota(20_000_000); IDLArgs::from_bytes_with_types_with_config(b, env, types, &cfg) });
    match r { Ok(Ok(a)) => json!({"ok": proj_args(&a)}), Ok(Err(e)) => json!({"err": 1, "msg": crate::util::errmsg(&e)}), Err(s) => json!({"panic": s}) }
}
fn input_json(inp: &Input, env: &TypeEnv, types: &[Type]) -> Value {
    match inp {
        Input::Blob(b) => json!({"blob": bytesj(b), "real": decode_outcome(b, env, types)}),
        Input::Text(s) => {
            let r = candid_parser::parse_idl_args(s).map_err(|e| candid::Error::msg(e.to_string())).and_then(|a| a.annotate_types(true, env, types));
            json!({"text": match r { Ok(a) => json!({"ok": proj_args(&a)}), Err(_) => json!({"err": 1}) }})
        }
    }
}
pub fn run(o: &Opts) {
    let dir = o.extra.first().cloned().unwrap_or("/repo/test".to_string());
    let mut files: Vec<_> = std::fs::read_dir(&dir).unwrap().map(|e| e.unwrap().path()).filter(|p| p.to_str().unwrap().ends_with(".test.did")).collect();
    files.sort();
    let mut out = Out::new();
    let mut idx = 0;
    for f in files {
        let src = std::fs::read_to_string(&f).unwrap();
        let test: Test = src.parse().unwrap();
        let mut env = TypeEnv::new();
        check_prog(&mut env, &IDLProg { decs: test.defs, actor: None }).unwrap();
        for (i, a) in test.asserts.iter().enumerate() {
            if idx < o.start { idx += 1; continue; }
            let types: Vec<Type> = a.typ.iter().map(|ty| ast_to_type(&env, &ty.typ).unwrap()).collect();
            let mut fl = Flat::new(&env);
            let tids: Vec<_> = types.iter().map(|t| fl.ty(t)).collect();
            let left = input_json(&a.left, &env, &types);
            let right = a.right.as_ref().map(|r| input_json(r, &env, &types));
            let mut m = Map::new();
            m.insert("idx".into(), json!(idx));
            m.insert("file".into(), json!(f.file_name().unwrap().to_str().unwrap()));
            m.insert("n".into(), json!(i + 1));
            m.insert("pass".into(), json!(if a.pass { 1 } else { 0 }));
            m.insert("env".into(), json!(fl.nodes));
            m.insert("types".into(), json!(tids));
            m.insert("left".into(), left);
            m.insert("hasright".into(), json!(if right.is_some() { 1 } else { 0 }));
            m.insert("right".into(), right.unwrap_or(json!({"none": 1})));
            out.emit(&Value::Object(m));
            idx += 1;
        }
    }
}
