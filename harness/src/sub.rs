//! C05 / C04: the real subtype, equality, upgrade and report functions on abstract environments.
use crate::absty::Abs;
use crate::proj::Flat;
use crate::util::*;
use candid::types::subtype::{equal, subtype_check_all, subtype_with_config, Gamma, OptReport};
use candid::types::{Type, TypeEnv, TypeInner};
use candid_parser::utils::{service_compatibility_report, service_compatible, service_equal, CandidSource};
use rand::Rng;
use serde_json::{json, Map, Value};

fn verdict(r: Result<bool, String>) -> Value { match r { Ok(true) => json!(1), Ok(false) => json!(0), Err(_) => json!(2) } }
fn sub(env: &TypeEnv, a: &Type, b: &Type) -> Value { verdict(guard(|| { let mut g = Gamma::new(); subtype_with_config(OptReport::Silence, &mut g, env, a, b).is_ok() })) }
fn eq(env: &TypeEnv, a: &Type, b: &Type) -> Value { verdict(guard(|| { let mut g = Gamma::new(); equal(&mut g, env, a, b).is_ok() })) }
fn rep(env: &TypeEnv, a: &Type, b: &Type) -> Value { verdict(guard(|| { let mut g = Gamma::new(); subtype_check_all(&mut g, env, a, b).is_empty() })) }

fn parse_env(src: &str) -> Result<TypeEnv, String> {
    let p: candid_parser::IDLProg = src.parse().map_err(|e: candid_parser::Error| e.to_string())?;
    let mut env = TypeEnv::new();
    candid_parser::typing::check_prog(&mut env, &p).map_err(|e| e.to_string())?;
    Ok(env)
}
fn parse_ty(env: &TypeEnv, src: &str) -> Result<Type, String> {
    let ast: candid_parser::syntax::IDLType = src.parse().map_err(|e: candid_parser::Error| e.to_string())?;
    candid_parser::typing::ast_to_type(env, &ast).map_err(|e| e.to_string())
}

/// one TLC-generated environment: every ordered pair of references in three renderings
pub fn env_case(idx: usize, c: &Value) -> Value {
    let envj = c["env"].as_object().unwrap();
    let refs: Vec<String> = c["refs"].as_array().unwrap().iter().map(|x| x.as_str().unwrap().to_string()).collect();
    // shape 0: every definition a named variable, built directly
    let a0 = Abs::new(envj);
    let e0 = a0.type_env();
    // shape 1: through .did text: definitions renamed (which reverses their order) and listed in reverse,
    // fields and methods written in reverse order
    let mut a1 = Abs::new(envj);
    let nd = a1.defs().len();
    for (i, d) in a1.defs().into_iter().enumerate() { a1.names.insert(d, format!("Z{}_", nd - i)); }
    a1.reverse = true;
    let src1 = a1.defs_txt();
    let e1 = parse_env(&src1);
    // shape 2: non-recursive definitions expanded in place
    let mut a2 = Abs::new(envj);
    a2.inline_nonrecursive();
    let e2 = a2.type_env();
    let mut qs = vec![];
    for a in &refs {
        for b in &refs {
            let mut o = Map::new();
            o.insert("s0".into(), sub(&e0, &a0.ty(a), &a0.ty(b)));
            o.insert("e0".into(), eq(&e0, &a0.ty(a), &a0.ty(b)));
            o.insert("r0".into(), rep(&e0, &a0.ty(a), &a0.ty(b)));
            match &e1 {
                Ok(e1) => {
                    match (parse_ty(e1, &a1.txt(a)), parse_ty(e1, &a1.txt(b))) {
                        (Ok(ta), Ok(tb)) => { o.insert("s1".into(), sub(e1, &ta, &tb)); o.insert("e1".into(), eq(e1, &ta, &tb)); }
                        _ => { o.insert("s1".into(), json!(3)); o.insert("e1".into(), json!(3)); }
                    }
                }
                Err(_) => { o.insert("s1".into(), json!(3)); o.insert("e1".into(), json!(3)); }
            }
            o.insert("s2".into(), sub(&e2, &a2.ty(a), &a2.ty(b)));
            o.insert("e2".into(), eq(&e2, &a2.ty(a), &a2.ty(b)));
            // service level (through .did text and merge_type) for pairs of definitions
            if a.starts_with("v_") && b.starts_with("v_") {
                let defs = a0.defs_txt();
                let is_serv = |id: &str| envj[id]["k"] == "service";
                let (new, old, new_in, old_in) = if is_serv(a) && is_serv(b) {
                    (format!("{defs}service : {}", a0.txt(a)), format!("{defs}service : {}", a0.txt(b)), None, None)
                } else {
                    (format!("{defs}service : {{ f : () -> ({}) }}", a0.txt(a)), format!("{defs}service : {{ f : () -> ({}) }}", a0.txt(b)),
                     Some(format!("{defs}service : {{ f : ({}) -> () }}", a0.txt(b))), Some(format!("{defs}service : {{ f : ({}) -> () }}", a0.txt(a))))
                };
                o.insert("compat".into(), verdict(guard(|| service_compatible(CandidSource::Text(&new), CandidSource::Text(&old)).is_ok())));
                o.insert("report".into(), verdict(guard(|| service_compatibility_report(CandidSource::Text(&new), CandidSource::Text(&old)).map(|r| r.is_empty()).unwrap_or(false))));
                o.insert("svc_eq".into(), verdict(guard(|| service_equal(CandidSource::Text(&new), CandidSource::Text(&old)).is_ok())));
                if let (Some(n), Some(ol)) = (new_in, old_in) {
                    // contravariant position: new takes b, old takes a: compatible iff a <: b
                    o.insert("compat_in".into(), verdict(guard(|| service_compatible(CandidSource::Text(&n), CandidSource::Text(&ol)).is_ok())));
                    o.insert("report_in".into(), verdict(guard(|| service_compatibility_report(CandidSource::Text(&n), CandidSource::Text(&ol)).map(|r| r.is_empty()).unwrap_or(false))));
                }
            }
            qs.push(json!({"a": a, "b": b, "o": o}));
        }
    }
    json!({"idx": idx, "kind": "env", "env": c["env"], "qs": qs})
}

/// a history of queries on one shared memo; after every query the whole memo is logged, and every
/// pair in it is re-queried (on a copy of the memo) to see what a caller would now be told
fn run_hist(env: &TypeEnv, fl: &mut Flat, qs: &[(Type, Type)]) -> Vec<Value> {
    let mut gamma = Gamma::new();
    let mut out = vec![];
    for (a, b) in qs {
        let (ia, ib) = (fl.ty(a), fl.ty(b));
        let ok = guard(|| subtype_with_config(OptReport::Silence, &mut gamma, env, a, b).is_ok());
        let mut gs = vec![];
        let pairs: Vec<(Type, Type)> = gamma.iter().cloned().collect();
        for (x, y) in pairs {
            let again = guard(|| { let mut g2 = gamma.clone(); subtype_with_config(OptReport::Silence, &mut g2, env, &x, &y).is_ok() });
            let fresh = guard(|| { let mut g2 = Gamma::new(); subtype_with_config(OptReport::Silence, &mut g2, env, &x, &y).is_ok() });
            gs.push(json!([fl.ty(&x), fl.ty(&y), verdict(again), verdict(fresh)]));
        }
        out.push(json!({"a": ia, "b": ib, "ok": verdict(ok), "gamma": gs}));
    }
    out
}
pub fn hist_case(idx: usize, c: &Value) -> Value {
    let envj = c["env"].as_object().unwrap();
    let a0 = Abs::new(envj);
    let e0 = a0.type_env();
    let mut fl = Flat::new(&e0);
    let qs: Vec<(Type, Type)> = c["hist"].as_array().unwrap().iter().map(|q| (a0.ty(q[0].as_str().unwrap()), a0.ty(q[1].as_str().unwrap()))).collect();
    let h = run_hist(&e0, &mut fl, &qs);
    json!({"idx": idx, "kind": "hist", "env": fl.nodes, "hist": h})
}

/// random large environments: pairs (fresh memo) and histories (shared memo)
pub fn rand_case(idx: usize, g: &mut crate::gen::G) -> Value {
    let nd = g.rng_range(1, 7);
    let env = g.env(nd);
    let mut fl = Flat::new(&env);
    let mut pairs = vec![];
    let nq = g.rng_range(2, 5);
    for _ in 0..nq {
        let t1 = if g.rng_range(0, 2) == 0 { g.typ(2) } else { TypeInner::Var(format!("D{}", g.rng_range(0, nd))).into() };
        let t2 = match g.rng_range(0, 6) { 0 => g.typ(2), 1 => TypeInner::Var(format!("D{}", g.rng_range(0, nd))).into(), _ => g.related(&env, &t1, 3) };
        pairs.push(if g.rng_range(0, 2) == 0 { (t1, t2) } else { (t2, t1) });
    }
    let mut qs = vec![];
    for (a, b) in &pairs {
        let (ia, ib) = (fl.ty(a), fl.ty(b));
        qs.push(json!({"a": ia, "b": ib, "o": {"s0": sub(&env, a, b), "e0": eq(&env, a, b), "r0": rep(&env, a, b)}}));
    }
    let h = run_hist(&env, &mut fl, &pairs);
    json!({"idx": idx, "kind": "rand", "env": fl.nodes, "qs": qs, "hist": h})
}

/// template for the history dimension: mutually recursive definitions behind `opt`, with a
/// difference deep inside, queried in the order that makes a probe fail first
pub fn template_case(idx: usize, g: &mut crate::gen::G) -> Value {
    use candid::types::{Field, Label};
    use std::rc::Rc;
    let var = |s: &str| -> Type { TypeInner::Var(s.to_string()).into() };
    let rec = |fs: Vec<(u32, Type)>| -> Type { TypeInner::Record(fs.into_iter().map(|(i, t)| Field { id: Rc::new(Label::Id(i)), ty: t }).collect()).into() };
    let prims = [TypeInner::Nat, TypeInner::Text, TypeInner::Null, TypeInner::Int, TypeInner::Bool];
    let mut p = || -> Type { prims[g.rng_range(0, prims.len())].clone().into() };
    let mut env = TypeEnv::new();
    // A = record { 0 : B; [1 : p] }   B = record { 0 : A; [1 : B | q] }   C = opt B | record { 0: opt A; 1 : vec B }
    let (x1, x2) = (p(), p());
    let k = g.rng_range(0, 4);
    env.0.insert("A".into(), rec(if k % 2 == 0 { vec![(0, var("B"))] } else { vec![(0, var("B")), (1, x1)] }));
    env.0.insert("B".into(), rec(match g.rng_range(0, 3) { 0 => vec![(0, var("A")), (1, var("B"))], 1 => vec![(0, var("A")), (1, x2)], _ => vec![(0, var("A"))] }));
    env.0.insert("C".into(), match g.rng_range(0, 3) { 0 => TypeInner::Opt(var("B")).into(), 1 => TypeInner::Opt(var("A")).into(), _ => rec(vec![(0, TypeInner::Opt(var("A")).into()), (1, TypeInner::Vec(var("B")).into())]) });
    env.0.insert("D".into(), match g.rng_range(0, 3) { 0 => TypeInner::Opt(var("C")).into(), 1 => rec(vec![(0, var("C"))]), _ => TypeInner::Vec(var("A")).into() });
    let names = ["A", "B", "C", "D"];
    let mut fl = Flat::new(&env);
    let mut pairs = vec![];
    for _ in 0..3 { pairs.push((var(names[g.rng_range(0, 4)]), var(names[g.rng_range(0, 4)]))); }
    let h = run_hist(&env, &mut fl, &pairs);
    json!({"idx": idx, "kind": "hist", "env": fl.nodes, "hist": h})
}

/// second memo-stress template: two mutually recursive families that agree or differ deep inside, queried through
/// random constructor contexts (opt, vec, record, function argument/result, service method, and nestings of them)
pub fn template2_case(idx: usize, g: &mut crate::gen::G) -> Value {
    use candid::types::{Field, Function, FuncMode, Label};
    use std::rc::Rc;
    let var = |s: &str| -> Type { TypeInner::Var(s.to_string()).into() };
    let rec = |fs: Vec<(u32, Type)>| -> Type { TypeInner::Record(fs.into_iter().map(|(i, t)| Field { id: Rc::new(Label::Id(i)), ty: t }).collect()).into() };
    let prims = [TypeInner::Nat, TypeInner::Text, TypeInner::Int, TypeInner::Null];
    let p1: Type = prims[g.rng_range(0, prims.len())].clone().into();
    let p2: Type = if g.rng_range(0, 3) == 0 { p1.clone() } else { prims[g.rng_range(0, prims.len())].clone().into() };
    let mut env = TypeEnv::new();
    // left family A/C, right family B/D; the families differ (or not) only in the primitive deep inside
    let link = g.rng_range(0, 3);
    let wrap = |t: Type, k: usize| -> Type { match k { 0 => t, 1 => TypeInner::Opt(t).into(), _ => TypeInner::Vec(t).into() } };
    env.0.insert("A".into(), rec(vec![(0, wrap(var("C"), link)), (1, p1)]));
    env.0.insert("B".into(), rec(vec![(0, wrap(var("D"), link)), (1, p2)]));
    env.0.insert("C".into(), rec(vec![(0, var("A"))]));
    env.0.insert("D".into(), rec(vec![(0, var("B"))]));
    fn ctx(g: &mut crate::gen::G, t: Type, depth: usize) -> (Type, Vec<usize>) {
        let k = g.rng_range(0, 9);
        let f = |args: Vec<Type>, rets: Vec<Type>, modes: Vec<FuncMode>| -> Type { TypeInner::Func(Function { modes, args, rets }).into() };
        let inner = if depth > 0 && g.rng_range(0, 2) == 0 { ctx(g, t.clone(), depth - 1).0 } else { t.clone() };
        let out: Type = match k {
            0 => TypeInner::Opt(inner).into(),
            1 => TypeInner::Vec(inner).into(),
            2 => TypeInner::Record(vec![Field { id: Rc::new(Label::Id(0)), ty: inner }, Field { id: Rc::new(Label::Id(7)), ty: TypeInner::Opt(TypeInner::Nat.into()).into() }]).into(),
            3 => f(vec![inner], vec![], vec![]),
            4 => f(vec![], vec![inner], vec![FuncMode::Query]),
            5 => TypeInner::Service(vec![("m".to_string(), f(vec![], vec![inner], vec![]))]).into(),
            6 => TypeInner::Service(vec![("m".to_string(), f(vec![inner], vec![], vec![]))]).into(),
            7 => TypeInner::Opt(TypeInner::Service(vec![("m".to_string(), f(vec![inner.clone()], vec![inner], vec![]))]).into()).into(),
            _ => TypeInner::Variant(vec![Field { id: Rc::new(Label::Id(0)), ty: inner }]).into(),
        };
        (out, vec![k])
    }
    let names = [("A", "B"), ("C", "D"), ("B", "A"), ("D", "C"), ("A", "A"), ("C", "A")];
    let mut fl = Flat::new(&env);
    let mut pairs = vec![];
    for _ in 0..3 {
        let (l, r) = names[g.rng_range(0, names.len())];
        if g.rng_range(0, 4) == 0 { pairs.push((var(l), var(r))); continue; }
        // the same context on both sides (seeded identically), sometimes wrapped once more in opt on the right
        let seed: u64 = g.rng.gen();
        let mut g1 = crate::gen::G::new(seed); let mut g2 = crate::gen::G::new(seed);
        let a = ctx(&mut g1, var(l), 1).0;
        let b = ctx(&mut g2, var(r), 1).0;
        let b = if g.rng_range(0, 4) == 0 { TypeInner::Opt(b).into() } else { b };
        pairs.push((a, b));
    }
    let h = run_hist(&env, &mut fl, &pairs);
    json!({"idx": idx, "kind": "hist", "env": fl.nodes, "hist": h})
}

pub fn run(o: &Opts) {
    let cases = read_cases(&o.cases);
    let mut out = Out::new();
    let mut idx = 0usize;
    for c in &cases {
        if idx >= o.start { if c.get("hist").is_some() { out.emit(&hist_case(idx, c)); } else { out.emit(&env_case(idx, c)); } }
        idx += 1;
    }
    let mut g = crate::gen::G::new(o.seed);
    for i in 0..o.n {
        // generators are advanced even for skipped cases so that a restarted worker sees the same cases
        let v = match i % 4 { 3 => template_case(idx, &mut g), 2 => template2_case(idx, &mut g), _ => rand_case(idx, &mut g) };
        if idx >= o.start { out.emit(&v); }
        idx += 1;
    }
}
