//! C11: printing untyped values as Candid text (Display and Debug) and parsing them back.
use crate::proj::{proj_args, Flat};
use crate::util::*;
use candid::types::value::{IDLArgs, IDLField, IDLValue, VariantValue};
use candid::types::{Field, Function, Label, Type, TypeEnv, TypeInner};
use candid::Principal;
use rand::prelude::*;
use serde_json::{json, Value};
use std::rc::Rc;

fn reparse(text: &str, env: &TypeEnv, types: &[Type]) -> Value {
    match guard(|| candid_parser::parse_idl_args(text).map_err(|e| e.to_string()).and_then(|a| a.annotate_types(true, env, types).map_err(|e| e.to_string()))) {
        Ok(Ok(a)) => json!({"ok": proj_args(&a)}),
        Ok(Err(e)) => json!({"err": 1, "msg": tail(&e)}),
        Err(s) => json!({"panic": s}),
    }
}
pub fn case(idx: usize, origin: &str, env: &TypeEnv, types: &[Type], args: &IDLArgs) -> Value {
    let mut fl = Flat::new(env);
    let tids: Vec<String> = types.iter().map(|t| fl.ty(t)).collect();
    let p = |f: &dyn Fn() -> String| -> Value { match guard(|| f()) { Ok(s) => json!({"ok": cps(&s)}), Err(site) => json!({"panic": site}) } };
    let disp = p(&|| format!("{args}"));
    let dbg = p(&|| format!("{args:?}"));
    let disp2 = p(&|| format!("{args}"));
    let dbg2 = p(&|| format!("{args:?}"));
    let rp = |d: &Value| -> Value { match d.get("ok") { Some(c) => reparse(&jstr(c), env, types), None => json!({"skip": 1}) } };
    json!({"idx": idx, "kind": "txt", "origin": origin, "env": fl.nodes, "types": tids, "vals": proj_args(args),
           "disp": disp, "dbg": dbg, "same": (disp == disp2 && dbg == dbg2) as u8, "p_disp": rp(&disp), "p_dbg": rp(&dbg)})
}
/// TLC-enumerated string s used as text, field name, variant tag, method name and blob
pub fn tlc_case(idx: usize, c: &Value) -> Value {
    let s = jstr(&c["s"]);
    let env = TypeEnv::new();
    let lab = |n: &str| Rc::new(Label::Named(n.to_string()));
    let fty: Type = TypeInner::Func(Function { modes: vec![], args: vec![], rets: vec![] }).into();
    let types: Vec<Type> = vec![
        TypeInner::Text.into(),
        TypeInner::Record(vec![Field { id: lab(&s), ty: TypeInner::Nat.into() }]).into(),
        TypeInner::Variant(vec![Field { id: lab(&s), ty: TypeInner::Null.into() }]).into(),
        TypeInner::Variant(vec![Field { id: lab(&s), ty: TypeInner::Text.into() }]).into(),
        fty,
        TypeInner::Vec(TypeInner::Nat8.into()).into(),
        TypeInner::Opt(TypeInner::Text.into()).into(),
        TypeInner::Vec(TypeInner::Text.into()).into(),
    ];
    let pr = Principal::from_slice(&[1, 2, 3]);
    let args = IDLArgs { args: vec![
        IDLValue::Text(s.clone()),
        IDLValue::Record(vec![IDLField { id: Label::Named(s.clone()), val: IDLValue::Nat(7u8.into()) }]),
        IDLValue::Variant(VariantValue(Box::new(IDLField { id: Label::Named(s.clone()), val: IDLValue::Null }), 0)),
        IDLValue::Variant(VariantValue(Box::new(IDLField { id: Label::Named(s.clone()), val: IDLValue::Text(s.clone()) }), 0)),
        IDLValue::Func(pr, s.clone()),
        IDLValue::Blob(s.as_bytes().to_vec()),
        IDLValue::Opt(Box::new(IDLValue::Text(s.clone()))),
        IDLValue::Vec(vec![IDLValue::Text(s.clone()), IDLValue::Text(String::new())]),
    ] };
    case(idx, "tlc", &env, &types, &args)
}
/// numbers at grouping boundaries, vectors around the abbreviation threshold, blobs of all byte classes, nested options
pub fn shaped_case(idx: usize, g: &mut crate::gen::G) -> Value {
    let env = TypeEnv::new();
    let k = g.rng_range(0, 8);
    let (t, v): (Type, IDLValue) = match k {
        0 => { let n: u64 = [0u64, 9, 999, 1000, 999_999, 1_000_000, u64::MAX][g.rng_range(0, 7)]; (TypeInner::Nat64.into(), IDLValue::Nat64(n)) }
        1 => { let n: i64 = [0i64, -1, -999, -1000, 1000, i64::MIN, i64::MAX, -1_000_000][g.rng_range(0, 8)]; (TypeInner::Int64.into(), IDLValue::Int64(n)) }
        2 => { let len = [0usize, 1, 9, 10, 11, 12, 30][g.rng_range(0, 7)]; (TypeInner::Vec(TypeInner::Int16.into()).into(), IDLValue::Vec((0..len).map(|i| IDLValue::Int16(i as i16 * 1000 - 5000)).collect())) }
        3 => { let len = [0usize, 1, 2, 10, 11, 40][g.rng_range(0, 6)]; let b: Vec<u8> = (0..len).map(|_| [0u8, 9, 10, 13, 0x1f, 0x20, 0x22, 0x27, 0x5c, 0x60, 0x7e, 0x7f, 0x80, 0xff, b'a'][g.rng_range(0, 15)]).collect(); (TypeInner::Vec(TypeInner::Nat8.into()).into(), IDLValue::Blob(b)) }
        4 => { let depth = g.rng_range(1, 5); let mut t: Type = TypeInner::Nat8.into(); let mut v = IDLValue::Nat8(200); for _ in 0..depth { t = TypeInner::Opt(t).into(); v = IDLValue::Opt(Box::new(v)); } (t, v) }
        7 => {
            // labels and method names that are words of the grammar (must be printed quoted where the lexer would not read an identifier)
            const KW: &[&str] = &["true", "false", "null", "opt", "vec", "record", "variant", "service", "func", "query", "oneway", "composite_query", "blob", "principal", "import", "type", "nan", "inf", "float32", "empty", "reserved", "bool", "text", "nat", "int", "id", "_", "a1"];
            let n = KW[g.rng_range(0, KW.len())].to_string();
            let m = KW[g.rng_range(0, KW.len())].to_string();
            let lab = |s: &str| Rc::new(Label::Named(s.to_string()));
            let vt: Type = TypeInner::Variant(vec![Field { id: lab(&m), ty: TypeInner::Null.into() }]).into();
            let ft: Type = TypeInner::Func(Function { modes: vec![], args: vec![], rets: vec![] }).into();
            let mut fs = vec![Field { id: lab(&n), ty: vt.clone() }, Field { id: lab("zz"), ty: ft.clone() }];
            fs.sort_by_key(|f| f.id.get_id());
            let t: Type = TypeInner::Record(fs).into();
            let mut vf = vec![IDLField { id: Label::Named(n.clone()), val: IDLValue::Variant(VariantValue(Box::new(IDLField { id: Label::Named(m.clone()), val: IDLValue::Null }), 0)) },
                              IDLField { id: Label::Named("zz".into()), val: IDLValue::Func(Principal::from_slice(&[1]), m.clone()) }];
            vf.sort_by_key(|f| f.id.get_id());
            (t, IDLValue::Record(vf))
        }
        5 => { let n = candid::Nat::parse(["0", "999", "1000", "18446744073709551616", "340282366920938463463374607431768211456", "1000000000000000000000000000000000000000000"][g.rng_range(0, 6)].as_bytes()).unwrap(); (TypeInner::Nat.into(), IDLValue::Nat(n)) }
        _ => { let f = [0.0f64, -0.0, 1.0, -1.5, 1e21, 1e-7, f64::MAX, f64::MIN_POSITIVE, 123456789.125, 0.1][g.rng_range(0, 10)]; (TypeInner::Float64.into(), IDLValue::Float64(f)) }
    };
    case(idx, "shaped", &env, &[t], &IDLArgs { args: vec![v] })
}
fn finite(v: &IDLValue) -> bool {
    match v { IDLValue::Float32(f) => f.is_finite(), IDLValue::Float64(f) => f.is_finite(), IDLValue::Opt(x) => finite(x), IDLValue::Vec(xs) => xs.iter().all(finite),
              IDLValue::Record(fs) => fs.iter().all(|f| finite(&f.val)), IDLValue::Variant(x) => finite(&x.0.val), _ => true }
}
pub fn rand_case(idx: usize, g: &mut crate::gen::G) -> Value {
    loop {
        let m = crate::msg::rand_msg(g, 1);
        if !m.args.args.iter().all(finite) { continue; }
        return case(idx, "rand", &m.env, &m.wts, &m.args);
    }
}
pub fn run(o: &Opts) {
    let cases = read_cases(&o.cases);
    let mut out = Out::new();
    let mut idx = 0usize;
    for c in &cases { if idx >= o.start { out.emit(&tlc_case(idx, c)); } idx += 1; }
    let mut g = crate::gen::G::new(o.seed);
    for i in 0..o.n {
        let v = if i % 4 == 0 { shaped_case(idx, &mut g) } else { rand_case(idx, &mut g) };
        if idx >= o.start { out.emit(&v); }
        idx += 1;
    }
    let _ = StdRng::seed_from_u64(0);
}
