//! C20: candid_parser::random::any on (environment, types, seed, configuration); the outcome is
//! projected (DESIGN.md §3) and re-annotated / encoded at the requested types.
use crate::absty::Abs;
use crate::proj::{proj_args, Flat};
use crate::util::*;
use candid::types::{Type, TypeEnv, TypeInner};
use candid_parser::configs::Configs;
use rand::prelude::*;
use serde_json::{json, Map, Value};
use std::str::FromStr;

/// configuration description (JSON) -> the TOML text `didc random -c` would read.
/// cfg = {"root": C, "defs": {"<name>": C}},  C = {"range":[]|[l,r], "text":""|kind, "width":[]|[w], "value":[strings], "depth":[]|[d], "size":[]|[s]}
fn ri(x: &Value) -> i64 { if let Some(i) = x.as_i64() { i } else { use std::convert::TryFrom; i64::try_from(jnum(x)).unwrap() } }
fn toml_of(cfg: &Value) -> String {
    fn body(c: &Value) -> String {
        let mut s = String::new();
        if let Some(r) = c["range"].as_array() { if r.len() == 2 { s += &format!("range = [{}, {}]\n", ri(&r[0]), ri(&r[1])); } }
        if let Some(t) = c["text"].as_str() { if !t.is_empty() { s += &format!("text = \"{t}\"\n"); } }
        for k in ["width", "depth", "size"] { if let Some(w) = c[k].as_array() { if w.len() == 1 { s += &format!("{k} = {}\n", w[0]); } } }
        if let Some(v) = c["value"].as_array() { if !v.is_empty() { s += &format!("value = [{}]\n", v.iter().map(|x| format!("{:?}", x.as_str().unwrap())).collect::<Vec<_>>().join(", ")); } }
        s
    }
    let mut s = String::from("[random]\n");
    s += &body(&cfg["root"]);
    if let Some(d) = cfg["defs"].as_object() { for (k, c) in d { s += &format!("[random.{}]\n", k.strip_prefix("v_").unwrap_or(k)); s += &body(c); } }
    s
}

/// the configuration as the referee reads it: range bounds as abstract numbers, definitions keyed by node id
fn norm_cfg(cfg: &Value) -> Value {
    fn one(c: &Value) -> Value {
        let mut c = c.clone();
        if let Some(r) = c["range"].as_array() { if r.len() == 2 { let n: Vec<Value> = r.iter().map(|x| num(&num_bigint::BigInt::from(ri(x)))).collect(); c["range"] = Value::Array(n); } }
        c
    }
    let mut d = Map::new();
    if let Some(m) = cfg["defs"].as_object() { for (k, c) in m { d.insert(k.clone(), one(c)); } }
    json!({"root": one(&cfg["root"]), "defs": d})
}

/// nesting depth of a JSON document (TLC's JSON reader stops at 255)
fn jdepth(v: &Value) -> usize {
    match v { Value::Array(a) => 1 + a.iter().map(jdepth).max().unwrap_or(0), Value::Object(o) => 1 + o.values().map(jdepth).max().unwrap_or(0), _ => 0 }
}

pub fn case(idx: usize, origin: &str, env: &TypeEnv, graph: &Value, tids: &[String], types: &[Type], cfg: &Value, seed: &[u8], seed_kind: &str) -> Value {
    let toml = toml_of(cfg);
    PROGRESS.fetch_add(1, std::sync::atomic::Ordering::Relaxed);
    if std::env::var("CV_DEBUG").is_ok() { eprintln!("case {idx} types {tids:?} seed {seed_kind}/{} cfg {toml:?} env {graph}", seed.len()); }
    let out = match guard(|| {
        let configs = Configs::from_str(&toml).map_err(|e| format!("config: {e}"))?;
        candid_parser::random::any(seed, configs, env, types, &None).map_err(|e| errmsg(&e))
    }) {
        Ok(Ok(a)) => Ok(a),
        Ok(Err(e)) => Err(json!({"err": 1, "msg": tail(&e)})),
        Err(site) => Err(json!({"panic": site})),
    };
    if std::env::var("CV_DEBUG").is_ok() { if let Ok(a) = &out { eprintln!("generated: {} chars of text", format!("{a}").len()); } }
    let (o, ann, enc) = match &out {
        // a value too large for the referee is judged by the crate's own annotate/encode only (recorded as "big")
        Ok(a) if guard(|| format!("{a}").len() > 20000 || jdepth(&proj_args(a)) > 240).unwrap_or(false) => {
            let same = guard(|| a.clone().annotate_types(true, env, types).map(|b| format!("{b}") == format!("{a}")).unwrap_or(false)).unwrap_or(false);
            let enc = guard(|| a.to_bytes_with_types(env, types).is_ok()).unwrap_or(false);
            (json!({"big": 1, "annsame": same as u8, "encok": enc as u8}), json!({"skip": 1}), json!({"skip": 1}))
        }
        Ok(a) => {
            let ann = match guard(|| a.clone().annotate_types(true, env, types).map_err(|e| errmsg(&e))) {
                Ok(Ok(b)) => json!({"ok": proj_args(&b)}),
                Ok(Err(e)) => json!({"err": 1, "msg": tail(&e)}),
                Err(s) => json!({"panic": s}),
            };
            let enc = match guard(|| a.to_bytes_with_types(env, types).map_err(|e| errmsg(&e))) {
                Ok(Ok(b)) => match guard(|| candid::IDLArgs::from_bytes_with_types(&b, env, types).map_err(|e| errmsg(&e))) {
                    Ok(Ok(d)) => json!({"ok": proj_args(&d)}),
                    Ok(Err(e)) => json!({"derr": 1, "msg": tail(&e)}),
                    Err(s) => json!({"panic": s}),
                },
                Ok(Err(e)) => json!({"err": 1, "msg": tail(&e)}),
                Err(s) => json!({"panic": s}),
            };
            (json!({"ok": proj_args(a)}), ann, enc)
        }
        Err(e) => (e.clone(), json!({"skip": 1}), json!({"skip": 1})),
    };
    json!({"idx": idx, "kind": "rand", "origin": origin, "env": graph, "types": tids, "defs": graph.as_object().map(|m| m.keys().filter(|k| k.starts_with("v_")).cloned().collect::<Vec<_>>()).unwrap_or_default(), "cfg": norm_cfg(cfg), "toml": toml, "seed_len": seed.len(), "seed_kind": seed_kind,
           "out": o, "ann": ann, "enc": enc})
}

static PROGRESS: std::sync::atomic::AtomicUsize = std::sync::atomic::AtomicUsize::new(0);
fn watchdog() {
    // a case that makes no progress for 20 s is a hang (normal cases take well under 10 ms)
    std::thread::spawn(move || { let mut last = usize::MAX; let mut still = 0; loop { std::thread::sleep(std::time::Duration::from_secs(2)); let now = PROGRESS.load(std::sync::atomic::Ordering::Relaxed); if now == last { still += 1; if still >= 10 { eprintln!("watchdog: no progress for 20s at case {now}"); std::process::abort(); } } else { still = 0; last = now; } } });
}
fn seeds(rng: &mut StdRng, thorough: bool) -> Vec<(String, Vec<u8>)> {
    let mut v: Vec<(String, Vec<u8>)> = vec![("empty".into(), vec![]), ("zeros".into(), vec![0; 48]), ("ones".into(), vec![0xff; 48])];
    for len in [3usize, 24, 160] { v.push((format!("rand{len}"), (0..len).map(|_| rng.gen()).collect())); }
    if thorough { for len in [1usize, 600, 2048] { v.push((format!("rand{len}"), (0..len).map(|_| rng.gen()).collect())); } v.push(("ones2048".into(), vec![0xff; 2048])); }
    v
}

fn none_cfg() -> Value { json!({"range": [], "text": "", "width": [], "value": [], "depth": [], "size": []}) }

/// literals offered through `value = [...]`: some inhabit the type, some do not (the generator must check)
const LITS: &[&str] = &["42", "null", "\"x\"", "opt 1", "vec {}", "record {}", "true", "-1", "(1)", "variant { 0 }", "record { 0 = 1 }", "principal \"aaaaa-aa\"", "not a value", "1.5", "(42 : nat8)", "reserved"];

fn rand_cfg(rng: &mut StdRng, defs: &[String]) -> Value {
    let one = |rng: &mut StdRng, depthsize: bool| -> Value {
        let mut c = none_cfg();
        if rng.gen_bool(0.3) { let r = [[0i64, 1], [-5, 5], [5, -5], [i64::MIN, i64::MAX], [300, 400], [-5, -1], [7, 7], [0, 65535], [-200, -100], [255, 256]][rng.gen_range(0..10)]; c["range"] = json!([r[0], r[1]]); }
        if rng.gen_bool(0.3) { c["text"] = json!(["ascii", "emoji", "name", "name.cn", "path", "country", "company", "bs", "klingon"][rng.gen_range(0..9)]); }
        if rng.gen_bool(0.4) { let w: i64 = [0, 1, 2, 3, 10, 40][rng.gen_range(0..6)]; c["width"] = json!([w]); }
        if rng.gen_bool(0.1) { let n = rng.gen_range(1..3); c["value"] = Value::Array((0..n).map(|_| json!(LITS[rng.gen_range(0..LITS.len())])).collect()); }
        if depthsize && rng.gen_bool(0.6) { let d: i64 = [-1, 0, 1, 2, 3, 10, 30][rng.gen_range(0..7)]; c["depth"] = json!([d]); }
        if depthsize && rng.gen_bool(0.4) { let z: i64 = [-1, 0, 1, 2, 5, 100, 1000][rng.gen_range(0..7)]; c["size"] = json!([z]); }
        c
    };
    let root = if rng.gen_bool(0.5) { one(rng, true) } else { none_cfg() };
    let mut d = Map::new();
    for n in defs { if rng.gen_bool(0.35) { d.insert(format!("v_{n}"), one(rng, true)); } }
    json!({"root": root, "defs": d})
}

/// environments built to contain the difficult shapes: uninhabited and barely inhabited recursion, empty, empty variants
fn shaped_env(rng: &mut StdRng) -> (&'static str, &'static str) {
    const E: &[(&str, &str)] = &[
        ("type A = record { A };", "A"),
        ("type A = record { 0 : nat; 1 : B }; type B = record { A };", "A"),
        ("type A = variant { a : A };", "A"),
        ("type A = variant { a : record { A }; b : opt A };", "A"),
        ("type A = variant { a : record { A; A }; b : vec A };", "A"),
        ("type A = variant { a : B; b : record { B } }; type B = variant { x : A; y : null };", "A"),
        ("type A = opt A;", "A"),
        ("type A = vec A;", "A"),
        ("type A = record { head : nat; tail : opt A };", "A"),
        ("type A = variant { nil; cons : record { nat; A } };", "A"),
        ("type A = variant { leaf : int; node : record { A; A } };", "vec A"),
        ("type A = variant {};", "A"),
        ("type A = variant {};", "opt A"),
        ("type A = variant {};", "vec A"),
        ("type A = empty;", "A"),
        ("type A = empty;", "record { nat; A }"),
        ("type A = variant { a : empty };", "A"),
        ("type A = variant { a : empty; b : nat };", "A"),
        ("type A = variant { a : empty; b : nat }; type B = record { A; opt B };", "B"),
        ("type A = record { vec A; opt A; B }; type B = variant { x; y : A };", "A"),
        ("type A = func (A) -> (A); type B = service { m : A };", "record { A; B }"),
        ("type A = record { a : text; b : blob; c : principal; d : float64; e : reserved; f : bool; g : null };", "A"),
        ("type A = record { nat8; nat16; nat32; nat64; int8; int16; int32; int64; nat; int; float32 };", "A"),
        ("type A = vec vec vec nat8;", "A"),
        ("type A = opt opt opt opt opt opt opt opt opt opt opt opt nat;", "A"),
        ("type A = record { B }; type B = record { C }; type C = record { D }; type D = record { E }; type E = record { F }; type F = record { G }; type G = record { H }; type H = record { I }; type I = record { J }; type J = record { K }; type K = record { opt A; variant { p : A; q } };", "A"),
        ("type A = B; type B = C; type C = opt A;", "A"),
        // a definition mentioned twice on different paths is not recursion (size estimate is per path)
        ("type B = nat8; type A = variant { leaf : record { B; B }; node : record { A; A; A } };", "A"),
        ("type C = int; type B = record { x : C; y : C }; type A = variant { dot : B; group : record { A; A } };", "A"),
        ("type B = opt nat; type A = variant { node : record { A; A }; leaf : record { B; B; B } };", "vec A"),
    ];
    E[rng.gen_range(0..E.len())]
}

pub fn run(o: &Opts) {
    watchdog();
    let thorough = o.extra.iter().any(|x| x == "--thorough");
    let cases = read_cases(&o.cases);
    let mut out = Out::new();
    let mut idx = 0usize;
    // TLC universe: every (environment, type, configuration) with a fixed family of seeds
    for (ci, c) in cases.iter().enumerate() {
        let envj = c["env"].as_object().unwrap();
        let abs = Abs::new(envj);
        let env = abs.type_env();
        let tids: Vec<String> = c["types"].as_array().unwrap().iter().map(|x| x.as_str().unwrap().to_string()).collect();
        let types: Vec<Type> = tids.iter().map(|t| abs.ty(t)).collect();
        let mut rng = StdRng::seed_from_u64(o.seed.wrapping_mul(7919).wrapping_add(ci as u64));
        for (kind, seed) in seeds(&mut rng, thorough) {
            if idx >= o.start { out.emit(&case(idx, "tlc", &env, &c["env"], &tids, &types, &c["cfg"], &seed, &kind)); }
            idx += 1;
        }
    }
    // random and shaped environments
    let mut g = crate::gen::G::new(o.seed);
    for i in 0..o.n {
        let mut rng = StdRng::seed_from_u64(o.seed.wrapping_mul(104729).wrapping_add(i as u64));
        let (env, types, origin): (TypeEnv, Vec<Type>, &str) = if i % 3 == 0 {
            let (defs, t) = shaped_env(&mut rng);
            let src = format!("{defs}\nservice : {{ m : ({t}) -> () }}");
            let prog: candid_parser::syntax::IDLProg = src.parse().expect("shaped env parses");
            let mut env = TypeEnv::new();
            let actor = candid_parser::typing::check_prog(&mut env, &prog).expect("shaped env checks").unwrap();
            let f = env.get_method(&actor, "m").unwrap().clone();
            (env, f.args, "shaped")
        } else {
            let n = rng.gen_range(0..4);
            let env = g.env(n);
            let k = rng.gen_range(1..3);
            let types = (0..k).map(|_| g.typ(2)).collect();
            (env, types, "rand")
        };
        let mut fl = Flat::new(&env);
        // every definition appears in the graph, referenced or not
        let names: Vec<String> = env.0.keys().cloned().collect();
        for n in &names { fl.ty(&TypeInner::Var(n.clone()).into()); }
        let tids: Vec<String> = types.iter().map(|t| fl.ty(t)).collect();
        let graph = json!(fl.nodes);
        let cfg = rand_cfg(&mut rng, &names);
        let len = [0usize, 1, 8, 64, 256, 2048][rng.gen_range(0..6)];
        let seed: Vec<u8> = match rng.gen_range(0..8) { 0 => vec![0; len], 1 => vec![0xff; len], _ => (0..len).map(|_| rng.gen()).collect() };
        if idx >= o.start { out.emit(&case(idx, origin, &env, &graph, &tids, &types, &cfg, &seed, "rand")); }
        idx += 1;
    }
}
