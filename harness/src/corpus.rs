//! The typed corpus: monomorphic Rust types with, for each, the *declared* abstract Candid type
//! (`decl`, written here, not taken from `T::ty()`), the abstract value of a native value (`abs`),
//! a boundary-biased generator and a structural equality that compares floats bit for bit.
//! Neither the derive macro nor the serializer is its own oracle.
use crate::util::*;
use candid::types::reference::{Func, Service};
use candid::{CandidType, Deserialize, Int, Nat, Principal, Reserved};
use rand::prelude::*;
use serde_json::{json, Map, Value};
use std::collections::{BTreeMap, BTreeSet, HashMap, HashSet, VecDeque};

/// harness-local copy of the label hash (the specification's Hash.tla is the judge of C15)
pub fn hash(name: &str) -> u32 { let mut h: u32 = 0; for b in name.bytes() { h = h.wrapping_mul(223).wrapping_add(b as u32); } h }

pub struct Decl { pub nodes: Map<String, Value>, cnt: usize }
impl Decl {
    pub fn new() -> Self { Decl { nodes: Map::new(), cnt: 0 } }
    pub fn prim(&mut self, k: &str) -> String { let id = format!("p_{k}"); self.nodes.entry(id.clone()).or_insert_with(|| json!({"k": k})); id }
    pub fn node(&mut self, v: Value) -> String { self.cnt += 1; let id = format!("d{}", self.cnt); self.nodes.insert(id.clone(), v); id }
    pub fn named(&mut self, name: &str, f: impl FnOnce(&mut Decl) -> Value) -> String {
        let id = format!("v_{name}");
        if !self.nodes.contains_key(&id) {
            self.nodes.insert(id.clone(), json!({"k": "pending"}));
            let v = f(self);
            self.nodes.insert(id.clone(), v);
        }
        id
    }
    pub fn record(&mut self, mut fs: Vec<(u32, String)>) -> Value { fs.sort(); json!({"k": "record", "fs": fs.into_iter().map(|(i, t)| json!({"id": u32j(i), "t": t})).collect::<Vec<_>>()}) }
    pub fn variant(&mut self, mut fs: Vec<(u32, String)>) -> Value { fs.sort(); json!({"k": "variant", "fs": fs.into_iter().map(|(i, t)| json!({"id": u32j(i), "t": t})).collect::<Vec<_>>()}) }
}
pub fn rec_val(mut fs: Vec<(u32, Value)>) -> Value { fs.sort_by_key(|x| x.0); json!({"k": "rec", "fs": fs.into_iter().map(|(i, v)| json!({"id": u32j(i), "v": v})).collect::<Vec<_>>()}) }
pub fn var_val(id: u32, v: Value) -> Value { json!({"k": "var", "id": u32j(id), "v": v}) }
fn fix(b: &[u8]) -> Value { json!({"k": "fix", "bytes": bytesj(b)}) }

pub trait Corp: CandidType + serde::de::DeserializeOwned + 'static {
    fn decl(d: &mut Decl) -> String;
    fn absv(&self) -> Value;
    fn gen(g: &mut StdRng, depth: u32) -> Self;
    fn same(&self, o: &Self) -> bool;
    /// limits of a bounded vector (None for every other type)
    fn bound() -> Value { json!({"none": 1}) }
}
macro_rules! prim_int {
    ($t:ty, $k:literal) => {
        impl Corp for $t {
            fn decl(d: &mut Decl) -> String { d.prim($k) }
            fn absv(&self) -> Value { fix(&self.to_le_bytes()) }
            fn gen(g: &mut StdRng, _d: u32) -> Self { match g.gen_range(0..6) { 0 => 0 as $t, 1 => <$t>::MAX, 2 => <$t>::MIN, 3 => 1 as $t, _ => g.gen() } }
            fn same(&self, o: &Self) -> bool { self == o }
        }
    };
}
prim_int!(u8, "nat8"); prim_int!(u16, "nat16"); prim_int!(u32, "nat32"); prim_int!(u64, "nat64");
prim_int!(i8, "int8"); prim_int!(i16, "int16"); prim_int!(i32, "int32"); prim_int!(i64, "int64");
impl Corp for f32 {
    fn decl(d: &mut Decl) -> String { d.prim("float32") }
    fn absv(&self) -> Value { fix(&self.to_le_bytes()) }
    fn gen(g: &mut StdRng, _d: u32) -> Self { match g.gen_range(0..6) { 0 => 0.0, 1 => -0.0, 2 => f32::NAN, 3 => f32::INFINITY, _ => f32::from_bits(g.gen()) } }
    fn same(&self, o: &Self) -> bool { self.to_bits() == o.to_bits() }
}
impl Corp for f64 {
    fn decl(d: &mut Decl) -> String { d.prim("float64") }
    fn absv(&self) -> Value { fix(&self.to_le_bytes()) }
    fn gen(g: &mut StdRng, _d: u32) -> Self { match g.gen_range(0..6) { 0 => 0.0, 1 => -0.0, 2 => f64::NAN, 3 => f64::NEG_INFINITY, _ => f64::from_bits(g.gen()) } }
    fn same(&self, o: &Self) -> bool { self.to_bits() == o.to_bits() }
}
impl Corp for bool {
    fn decl(d: &mut Decl) -> String { d.prim("bool") }
    fn absv(&self) -> Value { json!({"k": "bool", "b": *self as u8}) }
    fn gen(g: &mut StdRng, _d: u32) -> Self { g.gen() }
    fn same(&self, o: &Self) -> bool { self == o }
}
impl Corp for () {
    fn decl(d: &mut Decl) -> String { d.prim("null") }
    fn absv(&self) -> Value { json!({"k": "null"}) }
    fn gen(_g: &mut StdRng, _d: u32) -> Self {}
    fn same(&self, _o: &Self) -> bool { true }
}
impl Corp for Reserved {
    fn decl(d: &mut Decl) -> String { d.prim("reserved") }
    fn absv(&self) -> Value { json!({"k": "reserved"}) }
    fn gen(_g: &mut StdRng, _d: u32) -> Self { Reserved }
    fn same(&self, _o: &Self) -> bool { true }
}
fn big(g: &mut StdRng) -> num_bigint::BigUint {
    use num_bigint::BigUint;
    let one = BigUint::from(1u8);
    match g.gen_range(0..10) {
        0 => BigUint::from(0u8), 1 => BigUint::from(127u8), 2 => BigUint::from(128u8), 3 => BigUint::from(u64::MAX), 4 => BigUint::from(u64::MAX) + &one,
        5 => (&one << 63) - &one, 6 => &one << 127, 7 => (&one << 128) - &one, 8 => &one << g.gen_range(0..200u32),
        _ => BigUint::from(g.gen::<u64>()) * BigUint::from(g.gen::<u32>()),
    }
}
impl Corp for Nat {
    fn decl(d: &mut Decl) -> String { d.prim("nat") }
    fn absv(&self) -> Value { unum(&self.0) }
    fn gen(g: &mut StdRng, _d: u32) -> Self { Nat(big(g)) }
    fn same(&self, o: &Self) -> bool { self == o }
}
impl Corp for Int {
    fn decl(d: &mut Decl) -> String { d.prim("int") }
    fn absv(&self) -> Value { num(&self.0) }
    fn gen(g: &mut StdRng, _d: u32) -> Self { let m = num_bigint::BigInt::from(big(g)); Int(if g.gen_bool(0.5) { -m } else { m }) }
    fn same(&self, o: &Self) -> bool { self == o }
}
impl Corp for u128 {
    fn decl(d: &mut Decl) -> String { d.prim("nat") }
    fn absv(&self) -> Value { unum(&num_bigint::BigUint::from(*self)) }
    fn gen(g: &mut StdRng, _d: u32) -> Self { match g.gen_range(0..6) { 0 => 0, 1 => u128::MAX, 2 => u64::MAX as u128 + 1, 3 => 1 << 127, _ => g.gen() } }
    fn same(&self, o: &Self) -> bool { self == o }
}
impl Corp for i128 {
    fn decl(d: &mut Decl) -> String { d.prim("int") }
    fn absv(&self) -> Value { num(&num_bigint::BigInt::from(*self)) }
    fn gen(g: &mut StdRng, _d: u32) -> Self { match g.gen_range(0..7) { 0 => 0, 1 => i128::MAX, 2 => i128::MIN, 3 => -1, 4 => i64::MIN as i128 - 1, _ => g.gen() } }
    fn same(&self, o: &Self) -> bool { self == o }
}
const CHARS: &[char] = &['a', 'Z', '0', ' ', '\u{e9}', '\u{1f4e6}', '\0', '"', '\\', '\n', '\u{7ff}', '\u{ffff}', '\u{10ffff}'];
impl Corp for String {
    fn decl(d: &mut Decl) -> String { d.prim("text") }
    fn absv(&self) -> Value { json!({"k": "text", "cps": cps(self)}) }
    fn gen(g: &mut StdRng, _d: u32) -> Self { let n = if g.gen_bool(0.1) { g.gen_range(100..300) } else { g.gen_range(0..5) }; (0..n).map(|_| *CHARS.choose(g).unwrap()).collect() }
    fn same(&self, o: &Self) -> bool { self == o }
}
impl Corp for Principal {
    fn decl(d: &mut Decl) -> String { d.prim("principal") }
    fn absv(&self) -> Value { json!({"k": "principal", "b": bytesj(self.as_slice())}) }
    fn gen(g: &mut StdRng, _d: u32) -> Self { let n = *[0usize, 1, 10, 28, 29].choose(g).unwrap(); let b: Vec<u8> = (0..n).map(|_| g.gen()).collect(); Principal::from_slice(&b) }
    fn same(&self, o: &Self) -> bool { self == o }
}
impl Corp for serde_bytes::ByteBuf {
    fn decl(d: &mut Decl) -> String { let a = d.prim("nat8"); d.node(json!({"k": "vec", "a": a})) }
    fn absv(&self) -> Value { json!({"k": "vec", "vs": self.iter().map(|x| fix(&[*x])).collect::<Vec<_>>()}) }
    fn gen(g: &mut StdRng, _d: u32) -> Self { let n = g.gen_range(0..6); serde_bytes::ByteBuf::from((0..n).map(|_| g.gen()).collect::<Vec<u8>>()) }
    fn same(&self, o: &Self) -> bool { self == o }
}
fn len(g: &mut StdRng, depth: u32) -> usize { if depth == 0 { 0 } else { *[0usize, 0, 1, 2, 3, 11].choose(g).unwrap() } }
impl<T: Corp> Corp for Option<T> {
    fn decl(d: &mut Decl) -> String { let a = T::decl(d); d.node(json!({"k": "opt", "a": a})) }
    fn absv(&self) -> Value { match self { None => json!({"k": "null"}), Some(v) => json!({"k": "opt", "v": v.absv()}) } }
    fn gen(g: &mut StdRng, depth: u32) -> Self { if depth == 0 || g.gen_bool(0.3) { None } else { Some(T::gen(g, depth - 1)) } }
    fn same(&self, o: &Self) -> bool { match (self, o) { (None, None) => true, (Some(a), Some(b)) => a.same(b), _ => false } }
}
impl<T: Corp> Corp for Box<T> {
    fn decl(d: &mut Decl) -> String { T::decl(d) }
    fn absv(&self) -> Value { (**self).absv() }
    fn gen(g: &mut StdRng, depth: u32) -> Self { Box::new(T::gen(g, depth)) }
    fn same(&self, o: &Self) -> bool { (**self).same(o) }
}
macro_rules! seq_like {
    ($c:ident) => {
        impl<T: Corp> Corp for $c<T> {
            fn decl(d: &mut Decl) -> String { let a = T::decl(d); d.node(json!({"k": "vec", "a": a})) }
            fn absv(&self) -> Value { json!({"k": "vec", "vs": self.iter().map(|x| x.absv()).collect::<Vec<_>>()}) }
            fn gen(g: &mut StdRng, depth: u32) -> Self { let n = len(g, depth); (0..n).map(|_| T::gen(g, depth.saturating_sub(1))).collect() }
            fn same(&self, o: &Self) -> bool { self.len() == o.len() && self.iter().zip(o.iter()).all(|(a, b)| a.same(b)) }
        }
    };
}
seq_like!(Vec); seq_like!(VecDeque);
impl<T: Corp + Ord> Corp for BTreeSet<T> {
    fn decl(d: &mut Decl) -> String { let a = T::decl(d); d.node(json!({"k": "vec", "a": a})) }
    fn absv(&self) -> Value { json!({"k": "vec", "vs": self.iter().map(|x| x.absv()).collect::<Vec<_>>()}) }
    fn gen(g: &mut StdRng, depth: u32) -> Self { let n = len(g, depth); (0..n).map(|_| T::gen(g, depth.saturating_sub(1))).collect() }
    fn same(&self, o: &Self) -> bool { self == o }
}
impl<T: Corp + Eq + std::hash::Hash> Corp for HashSet<T> {
    fn decl(d: &mut Decl) -> String { let a = T::decl(d); d.node(json!({"k": "vec", "a": a})) }
    fn absv(&self) -> Value { json!({"k": "vec", "vs": self.iter().map(|x| x.absv()).collect::<Vec<_>>()}) }
    fn gen(g: &mut StdRng, depth: u32) -> Self { let n = len(g, depth); (0..n).map(|_| T::gen(g, depth.saturating_sub(1))).collect() }
    fn same(&self, o: &Self) -> bool { self == o }
}
fn entry_decl<K: Corp, V: Corp>(d: &mut Decl) -> String {
    let (k, v) = (K::decl(d), V::decl(d));
    let r = d.record(vec![(0, k), (1, v)]);
    let r = d.node(r);
    d.node(json!({"k": "vec", "a": r}))
}
impl<K: Corp + Ord, V: Corp> Corp for BTreeMap<K, V> {
    fn decl(d: &mut Decl) -> String { entry_decl::<K, V>(d) }
    fn absv(&self) -> Value { json!({"k": "vec", "vs": self.iter().map(|(k, v)| rec_val(vec![(0, k.absv()), (1, v.absv())])).collect::<Vec<_>>()}) }
    fn gen(g: &mut StdRng, depth: u32) -> Self { let n = len(g, depth.max(1)); (0..n).map(|_| (K::gen(g, 1), V::gen(g, depth.saturating_sub(1)))).collect() }
    fn same(&self, o: &Self) -> bool { self.len() == o.len() && self.iter().zip(o.iter()).all(|((a, b), (c, d))| a.same(c) && b.same(d)) }
}
impl<K: Corp + Eq + std::hash::Hash, V: Corp> Corp for HashMap<K, V> {
    fn decl(d: &mut Decl) -> String { entry_decl::<K, V>(d) }
    fn absv(&self) -> Value { json!({"k": "vec", "vs": self.iter().map(|(k, v)| rec_val(vec![(0, k.absv()), (1, v.absv())])).collect::<Vec<_>>()}) }
    fn gen(g: &mut StdRng, depth: u32) -> Self { let n = len(g, depth.max(1)); (0..n).map(|_| (K::gen(g, 1), V::gen(g, depth.saturating_sub(1)))).collect() }
    fn same(&self, o: &Self) -> bool { self.len() == o.len() && self.iter().all(|(k, v)| o.get(k).map(|w| v.same(w)).unwrap_or(false)) }
}
macro_rules! tuple_impl {
    ($($n:tt $t:ident),+) => {
        impl<$($t: Corp),+> Corp for ($($t,)+) {
            fn decl(d: &mut Decl) -> String { let fs = vec![$(($n, $t::decl(d))),+]; let r = d.record(fs); d.node(r) }
            fn absv(&self) -> Value { rec_val(vec![$(($n, self.$n.absv())),+]) }
            fn gen(g: &mut StdRng, depth: u32) -> Self { ($($t::gen(g, depth.saturating_sub(1)),)+) }
            fn same(&self, o: &Self) -> bool { true $(&& self.$n.same(&o.$n))+ }
        }
    };
}
tuple_impl!(0 A); tuple_impl!(0 A, 1 B); tuple_impl!(0 A, 1 B, 2 C);
impl<T: Corp, const N: usize> Corp for [T; N] where [T; N]: CandidType + serde::de::DeserializeOwned {
    fn decl(d: &mut Decl) -> String { let a = T::decl(d); d.node(json!({"k": "vec", "a": a})) }
    fn absv(&self) -> Value { json!({"k": "vec", "vs": self.iter().map(|x| x.absv()).collect::<Vec<_>>()}) }
    fn gen(g: &mut StdRng, depth: u32) -> Self { std::array::from_fn(|_| T::gen(g, depth.saturating_sub(1))) }
    fn same(&self, o: &Self) -> bool { self.iter().zip(o.iter()).all(|(a, b)| a.same(b)) }
}
impl<T: Corp, E: Corp> Corp for Result<T, E> {
    fn decl(d: &mut Decl) -> String { let fs = vec![(hash("Ok"), T::decl(d)), (hash("Err"), E::decl(d))]; let v = d.variant(fs); d.node(v) }
    fn absv(&self) -> Value { match self { Ok(v) => var_val(hash("Ok"), v.absv()), Err(e) => var_val(hash("Err"), e.absv()) } }
    fn gen(g: &mut StdRng, depth: u32) -> Self { if g.gen_bool(0.5) { Ok(T::gen(g, depth.saturating_sub(1))) } else { Err(E::gen(g, depth.saturating_sub(1))) } }
    fn same(&self, o: &Self) -> bool { match (self, o) { (Ok(a), Ok(b)) => a.same(b), (Err(a), Err(b)) => a.same(b), _ => false } }
}

// ------------------------------------------------------------------ derived structs
macro_rules! corp_struct {
    ($name:ident $(<$g:ident>)? { $($(#[$m:meta])* $f:ident : $t:ty => $n:literal),+ $(,)? }) => {
        #[derive(CandidType, Deserialize, Debug, Clone)]
        pub struct $name $(<$g>)? { $($(#[$m])* pub $f: $t),+ }
        impl $(<$g: Corp>)? Corp for $name $(<$g>)? {
            fn decl(d: &mut Decl) -> String {
                let nm = format!("{}{}", stringify!($name), String::new() $(+ "_" + std::any::type_name::<$g>().replace(|c: char| !c.is_ascii_alphanumeric(), "").as_str())?);
                d.named(&nm, |d| { let fs = vec![$((hash($n), <$t as Corp>::decl(d))),+]; d.record(fs) })
            }
            fn absv(&self) -> Value { rec_val(vec![$((hash($n), self.$f.absv())),+]) }
            fn gen(g: &mut StdRng, depth: u32) -> Self { $name { $($f: <$t as Corp>::gen(g, depth.saturating_sub(1))),+ } }
            fn same(&self, o: &Self) -> bool { true $(&& self.$f.same(&o.$f))+ }
        }
    };
}
corp_struct!(S1 { a: u8 => "a", b: String => "b" });
corp_struct!(S2 { zz: Nat => "zz", z: Int => "z", aa: Option<u8> => "aa", id: bool => "id" });
corp_struct!(S3 { #[serde(rename = "é")] x: u64 => "é", #[serde(rename = "a b")] y: f64 => "a b", r#type: Vec<u8> => "type", r#fn: i128 => "fn" });
corp_struct!(S4 { inner: S1 => "inner", list: Vec<S2> => "list", m: BTreeMap<String, S1> => "m" });
corp_struct!(S5 { #[serde(with = "serde_bytes")] blob: Vec<u8> => "blob", p: Principal => "p", r: Reserved => "r", f: f32 => "f" });
corp_struct!(Wrapper<T> { value: T => "value", count: u32 => "count" });
corp_struct!(List { head: Int => "head", tail: Option<Box<List>> => "tail" });
corp_struct!(Node { label: String => "label", kids: Vec<Tree> => "kids" });
corp_struct!(Tree { root: Option<Box<Node>> => "root", size: Nat => "size" });
corp_struct!(Big { a: u128 => "a", b: i128 => "b", c: Nat => "c", d: Int => "d", e: Vec<Nat> => "e", f: Vec<Int> => "f", g: BTreeMap<String, Int> => "g", h: BTreeMap<u8, Nat> => "h" });

// zero-width composite types (no bytes on the wire for a value), also nested
#[derive(CandidType, Deserialize, Debug, Clone)] pub struct Empty0 {}
impl Corp for Empty0 {
    fn decl(d: &mut Decl) -> String { d.named("Empty0", |d| d.record(vec![])) }
    fn absv(&self) -> Value { rec_val(vec![]) }
    fn gen(_g: &mut StdRng, _d: u32) -> Self { Empty0 {} }
    fn same(&self, _o: &Self) -> bool { true }
}
corp_struct!(Marker { unit: Empty0 => "unit" });
corp_struct!(Marker2 { a: Marker => "a", r: Reserved => "r", u: () => "u" });
#[derive(CandidType, Deserialize, Debug, Clone)] pub struct Unit;
impl Corp for Unit {
    fn decl(d: &mut Decl) -> String { d.prim("null") }
    fn absv(&self) -> Value { json!({"k": "null"}) }
    fn gen(_g: &mut StdRng, _d: u32) -> Self { Unit }
    fn same(&self, _o: &Self) -> bool { true }
}
#[derive(CandidType, Deserialize, Debug, Clone)] pub struct Newtype(pub Nat);
impl Corp for Newtype {
    fn decl(d: &mut Decl) -> String { d.prim("nat") }
    fn absv(&self) -> Value { self.0.absv() }
    fn gen(g: &mut StdRng, d: u32) -> Self { Newtype(Nat::gen(g, d)) }
    fn same(&self, o: &Self) -> bool { self.0 == o.0 }
}
#[derive(CandidType, Deserialize, Debug, Clone)] pub struct TupleStruct(pub u8, pub String, pub Option<Int>);
impl Corp for TupleStruct {
    fn decl(d: &mut Decl) -> String { let fs = vec![(0, u8::decl(d)), (1, String::decl(d)), (2, <Option<Int>>::decl(d))]; let r = d.record(fs); d.node(r) }
    fn absv(&self) -> Value { rec_val(vec![(0, self.0.absv()), (1, self.1.absv()), (2, self.2.absv())]) }
    fn gen(g: &mut StdRng, d: u32) -> Self { TupleStruct(u8::gen(g, d), String::gen(g, d), Option::<Int>::gen(g, d)) }
    fn same(&self, o: &Self) -> bool { self.0 == o.0 && self.1 == o.1 && self.2 == o.2 }
}
#[derive(CandidType, Deserialize, Debug, Clone, PartialEq)]
pub enum E1 { A, B(u8), #[serde(rename = "c d")] C { x: Int, y: Option<String> }, D(u8, Nat), Ok, r#type }
impl Corp for E1 {
    fn decl(d: &mut Decl) -> String {
        d.named("E1", |d| {
            let c = { let fs = vec![(hash("x"), Int::decl(d)), (hash("y"), <Option<String>>::decl(d))]; let r = d.record(fs); d.node(r) };
            let dd = { let fs = vec![(0, u8::decl(d)), (1, Nat::decl(d))]; let r = d.record(fs); d.node(r) };
            let fs = vec![(hash("A"), d.prim("null")), (hash("B"), u8::decl(d)), (hash("c d"), c), (hash("D"), dd), (hash("Ok"), d.prim("null")), (hash("type"), d.prim("null"))];
            d.variant(fs)
        })
    }
    fn absv(&self) -> Value {
        match self {
            E1::A => var_val(hash("A"), json!({"k": "null"})), E1::B(x) => var_val(hash("B"), x.absv()),
            E1::C { x, y } => var_val(hash("c d"), rec_val(vec![(hash("x"), x.absv()), (hash("y"), y.absv())])),
            E1::D(a, b) => var_val(hash("D"), rec_val(vec![(0, a.absv()), (1, b.absv())])),
            E1::Ok => var_val(hash("Ok"), json!({"k": "null"})), E1::r#type => var_val(hash("type"), json!({"k": "null"})),
        }
    }
    fn gen(g: &mut StdRng, d: u32) -> Self { match g.gen_range(0..6) { 0 => E1::A, 1 => E1::B(u8::gen(g, d)), 2 => E1::C { x: Int::gen(g, d), y: Option::<String>::gen(g, d) }, 3 => E1::D(g.gen(), Nat::gen(g, d)), 4 => E1::Ok, _ => E1::r#type } }
    fn same(&self, o: &Self) -> bool { self == o }
}
#[derive(CandidType, Deserialize, Debug, Clone)]
pub enum Expr { Lit(Int), Neg(Box<Expr>), Add(Box<Expr>, Box<Expr>), Many(Vec<Expr>) }
impl Corp for Expr {
    fn decl(d: &mut Decl) -> String {
        d.named("Expr", |d| {
            let me = "v_Expr".to_string();
            let add = { let r = d.record(vec![(0, me.clone()), (1, me.clone())]); d.node(r) };
            let many = d.node(json!({"k": "vec", "a": me.clone()}));
            let fs = vec![(hash("Lit"), Int::decl(d)), (hash("Neg"), me.clone()), (hash("Add"), add), (hash("Many"), many)];
            d.variant(fs)
        })
    }
    fn absv(&self) -> Value {
        match self {
            Expr::Lit(i) => var_val(hash("Lit"), i.absv()), Expr::Neg(e) => var_val(hash("Neg"), e.absv()),
            Expr::Add(a, b) => var_val(hash("Add"), rec_val(vec![(0, a.absv()), (1, b.absv())])),
            Expr::Many(v) => var_val(hash("Many"), json!({"k": "vec", "vs": v.iter().map(|x| x.absv()).collect::<Vec<_>>()})),
        }
    }
    fn gen(g: &mut StdRng, d: u32) -> Self {
        if d == 0 { return Expr::Lit(Int::gen(g, 0)); }
        match g.gen_range(0..4) { 0 => Expr::Lit(Int::gen(g, 0)), 1 => Expr::Neg(Box::new(Expr::gen(g, d - 1))), 2 => Expr::Add(Box::new(Expr::gen(g, d - 1)), Box::new(Expr::gen(g, d - 1))), _ => Expr::Many((0..g.gen_range(0..3)).map(|_| Expr::gen(g, d - 1)).collect()) }
    }
    fn same(&self, o: &Self) -> bool {
        match (self, o) { (Expr::Lit(a), Expr::Lit(b)) => a == b, (Expr::Neg(a), Expr::Neg(b)) => a.same(b), (Expr::Add(a, b), Expr::Add(c, d)) => a.same(c) && b.same(d),
            (Expr::Many(a), Expr::Many(b)) => a.len() == b.len() && a.iter().zip(b).all(|(x, y)| x.same(y)), _ => false }
    }
}
candid::define_function!(pub F1 : (u8, String) -> (Nat) query);
candid::define_service!(pub Sv1 : { "f": candid::func!((u8) -> (u8)); "g": candid::func!(() -> () oneway) });
fn gen_principal(g: &mut StdRng) -> Principal { Principal::gen(g, 0) }
impl Corp for F1 {
    fn decl(d: &mut Decl) -> String { let (a, b, r) = (d.prim("nat8"), d.prim("text"), d.prim("nat")); d.node(json!({"k": "func", "args": [a, b], "rets": [r], "modes": ["query"]})) }
    fn absv(&self) -> Value { json!({"k": "func", "b": bytesj(self.0.principal.as_slice()), "m": bytesj(self.0.method.as_bytes())}) }
    fn gen(g: &mut StdRng, d: u32) -> Self { F1::new(gen_principal(g), String::gen(g, d)) }
    fn same(&self, o: &Self) -> bool { self == o }
}
impl Corp for Sv1 {
    fn decl(d: &mut Decl) -> String {
        let n8 = d.prim("nat8");
        let f = d.node(json!({"k": "func", "args": [n8.clone()], "rets": [n8], "modes": []}));
        let g = d.node(json!({"k": "func", "args": [], "rets": [], "modes": ["oneway"]}));
        d.node(json!({"k": "service", "ms": [{"name": bytesj(b"f"), "t": f}, {"name": bytesj(b"g"), "t": g}]}))
    }
    fn absv(&self) -> Value { json!({"k": "service", "b": bytesj(self.0.principal.as_slice())}) }
    fn gen(g: &mut StdRng, _d: u32) -> Self { Sv1::new(gen_principal(g)) }
    fn same(&self, o: &Self) -> bool { self == o }
}
impl Corp for Func {
    fn decl(d: &mut Decl) -> String { d.node(json!({"k": "func", "args": [], "rets": [], "modes": []})) }
    fn absv(&self) -> Value { json!({"k": "func", "b": bytesj(self.principal.as_slice()), "m": bytesj(self.method.as_bytes())}) }
    fn gen(g: &mut StdRng, d: u32) -> Self { Func { principal: gen_principal(g), method: String::gen(g, d) } }
    fn same(&self, o: &Self) -> bool { self == o }
}
impl Corp for Service {
    fn decl(d: &mut Decl) -> String { d.node(json!({"k": "service", "ms": []})) }
    fn absv(&self) -> Value { json!({"k": "service", "b": bytesj(self.principal.as_slice())}) }
    fn gen(g: &mut StdRng, _d: u32) -> Self { Service { principal: gen_principal(g) } }
    fn same(&self, o: &Self) -> bool { self == o }
}

// ---- upgrade partners (C04 native leg)
corp_struct!(S1Plus { a: u8 => "a", b: String => "b", c: Option<Nat> => "c", zz: Option<S1> => "zz" });
corp_struct!(S1Minus { a: u8 => "a" });
corp_struct!(ListPlus { head: Int => "head", tail: Option<Box<ListPlus>> => "tail", note: Option<String> => "note" });
#[derive(CandidType, Deserialize, Debug, Clone, PartialEq)]
pub enum E1Small { A, B(u8), Ok }
impl Corp for E1Small {
    fn decl(d: &mut Decl) -> String { d.named("E1Small", |d| { let fs = vec![(hash("A"), d.prim("null")), (hash("B"), u8::decl(d)), (hash("Ok"), d.prim("null"))]; d.variant(fs) }) }
    fn absv(&self) -> Value { match self { E1Small::A => var_val(hash("A"), json!({"k": "null"})), E1Small::B(x) => var_val(hash("B"), x.absv()), E1Small::Ok => var_val(hash("Ok"), json!({"k": "null"})) } }
    fn gen(g: &mut StdRng, d: u32) -> Self { match g.gen_range(0..3) { 0 => E1Small::A, 1 => E1Small::B(u8::gen(g, d)), _ => E1Small::Ok } }
    fn same(&self, o: &Self) -> bool { self == o }
}
#[derive(CandidType, Deserialize, Debug, Clone)] pub struct TupleStruct2(pub u8, pub u8);
impl Corp for TupleStruct2 {
    fn decl(d: &mut Decl) -> String { let fs = vec![(0, u8::decl(d)), (1, u8::decl(d))]; let r = d.record(fs); d.node(r) }
    fn absv(&self) -> Value { rec_val(vec![(0, self.0.absv()), (1, self.1.absv())]) }
    fn gen(g: &mut StdRng, d: u32) -> Self { TupleStruct2(u8::gen(g, d), u8::gen(g, d)) }
    fn same(&self, o: &Self) -> bool { self.0 == o.0 && self.1 == o.1 }
}
candid::define_function!(pub F1Wide : (u8) -> (Int, Option<u8>) query);
candid::define_service!(pub Sv1Narrow : { "f": candid::func!((u8) -> (u8)) });
impl Corp for F1Wide {
    fn decl(d: &mut Decl) -> String { let (a, r) = (d.prim("nat8"), d.prim("int")); let o = d.node(json!({"k": "opt", "a": a.clone()})); d.node(json!({"k": "func", "args": [a], "rets": [r, o], "modes": ["query"]})) }
    fn absv(&self) -> Value { json!({"k": "func", "b": bytesj(self.0.principal.as_slice()), "m": bytesj(self.0.method.as_bytes())}) }
    fn gen(g: &mut StdRng, d: u32) -> Self { F1Wide::new(gen_principal(g), String::gen(g, d)) }
    fn same(&self, o: &Self) -> bool { self == o }
}
impl Corp for Sv1Narrow {
    fn decl(d: &mut Decl) -> String { let n8 = d.prim("nat8"); let f = d.node(json!({"k": "func", "args": [n8.clone()], "rets": [n8], "modes": []})); d.node(json!({"k": "service", "ms": [{"name": bytesj(b"f"), "t": f}]})) }
    fn absv(&self) -> Value { json!({"k": "service", "b": bytesj(self.0.principal.as_slice())}) }
    fn gen(g: &mut StdRng, _d: u32) -> Self { Sv1Narrow::new(gen_principal(g)) }
    fn same(&self, o: &Self) -> bool { self == o }
}

// ---- bounded vectors (C08)
use candid::types::bounded_vec::BoundedVec;
pub trait Sized1 { const UNIT: &'static str; fn small(g: &mut StdRng, max: usize) -> Self; fn size(&self) -> usize; }
impl Sized1 for u64 { const UNIT: &'static str = "fix"; fn small(g: &mut StdRng, _m: usize) -> Self { u64::gen(g, 0) } fn size(&self) -> usize { 8 } }
impl Sized1 for u8 { const UNIT: &'static str = "fix"; fn small(g: &mut StdRng, _m: usize) -> Self { g.gen() } fn size(&self) -> usize { 1 } }
impl Sized1 for String { const UNIT: &'static str = "text"; fn small(g: &mut StdRng, m: usize) -> Self { let n = g.gen_range(0..=m.min(6)); (0..n).map(|_| (b'a' + g.gen_range(0..26)) as char).collect() } fn size(&self) -> usize { self.len() } }
macro_rules! bv {
    ($l:expr, $s:expr, $e:expr, $t:ty) => {
        impl Corp for BoundedVec<{ $l }, { $s }, { $e }, $t> {
            fn decl(d: &mut Decl) -> String { let a = <$t>::decl(d); d.node(json!({"k": "vec", "a": a})) }
            fn absv(&self) -> Value { json!({"k": "vec", "vs": self.get().iter().map(|x| x.absv()).collect::<Vec<_>>()}) }
            /// values within the limits (a value beyond them cannot be decoded at this type by design)
            fn gen(g: &mut StdRng, _depth: u32) -> Self {
                let n = g.gen_range(0..=($l as usize).min(6));
                let mut v: Vec<$t> = vec![]; let mut total = 0usize;
                for _ in 0..n {
                    let room = ($s as usize).saturating_sub(total).min($e as usize);
                    let x = <$t as Sized1>::small(g, room);
                    if x.size() > room { break; }
                    total += x.size();
                    v.push(x);
                }
                BoundedVec::new(v)
            }
            fn same(&self, o: &Self) -> bool { self.get().len() == o.get().len() && self.get().iter().zip(o.get().iter()).all(|(a, b)| a.same(b)) }
            fn bound() -> Value { let f = |x: usize| if x == usize::MAX { -1i64 } else { x as i64 }; json!({"l": f($l), "s": f($s), "e": f($e), "unit": <$t as Sized1>::UNIT}) }
        }
    };
}
bv!(4, usize::MAX, usize::MAX, u64); bv!(usize::MAX, 16, usize::MAX, u64); bv!(usize::MAX, usize::MAX, 3, String); bv!(3, 5, 2, String); bv!(5, 4, usize::MAX, u8);
