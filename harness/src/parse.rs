//! C13: every text entry point of candid_parser on grammar-derived sentences, their mutants, character-class
//! strings and deep nesting: a result for every input, no panic.
use crate::util::*;
use candid::types::TypeEnv;
use serde_json::{json, Value};

fn variants(tok: &str) -> &'static [&'static str] {
    match tok {
        "decimal" => &["0", "1", "42", "4294967295", "4294967296", "007", "1_000", "1__0", "99999999999999999999999999999999999999999", "18446744073709551616"],
        "hex" => &["0x1F", "0X1F", "0x_1", "0xffffffff", "0x100000000", "0xFFFF_FFFF", "0x0", "0Xabc"],
        "float" => &["1.5", "1.", "1e10", ".5", "1e-3", "1.5e300", "0.0"],
        "text" => &["\"a\"", "\"\"", "\"\\u{1F4E6}\"", "\"\\zz\"", "\"é\"", "\"\\00\"", "\"aaaaa-aa\"", "\"\\u{110000}\"", "\"\\u{D800}\"", "\"\\ff\""],
        "id" => &["a", "nat", "record", "_", "a_b", "service", "blob", "A1", "t", "nat8", "int", "text", "reserved", "empty", "float64"],
        "sign" => &["+", "-"],
        "bool" => &["true", "false"],
        _ => &[],
    }
}
fn instantiate(toks: &[String], salt: u64) -> String {
    let mut out = String::new();
    let mut h = salt.wrapping_mul(0x9e3779b97f4a7c15) ^ 0xabcdef;
    for t in toks {
        let vs = variants(t);
        if !out.is_empty() { out.push(' '); }
        if vs.is_empty() { out.push_str(t); } else { h = h.wrapping_mul(6364136223846793005).wrapping_add(1442695040888963407); out.push_str(vs[(h >> 33) as usize % vs.len()]); }
    }
    out
}
fn cls<T, E>(r: Result<Result<T, E>, String>) -> Value { match r { Ok(Ok(_)) => json!("ok"), Ok(Err(_)) => json!("err"), Err(s) => json!(format!("panic@{s}")) } }
pub fn entries(s: &str) -> Value {
    use candid_parser::syntax::{IDLInitArgs, IDLProg, IDLType, IDLTypes};
    let prog = guard(|| s.parse::<IDLProg>());
    let checked = match &prog {
        Ok(Ok(p)) => cls(guard(|| { let mut env = TypeEnv::new(); candid_parser::typing::check_prog(&mut env, p) })),
        _ => json!("-"),
    };
    json!({
        "args": cls(guard(|| candid_parser::parse_idl_args(s))),
        "value": cls(guard(|| candid_parser::parse_idl_value(s))),
        "prog": cls(prog),
        "check": checked,
        "typ": cls(guard(|| s.parse::<IDLType>())),
        "typs": cls(guard(|| s.parse::<IDLTypes>())),
        "init": cls(guard(|| s.parse::<IDLInitArgs>())),
        "test": cls(guard(|| s.parse::<candid_parser::test::Test>())),
    })
}
fn case_of_strings(idx: usize, origin: &str, strs: Vec<String>) -> Value {
    let res: Vec<Value> = strs.iter().map(|s| json!({"s": if s.len() <= 400 { json!(s) } else { json!(format!("{}…[{} chars]", &s.chars().take(120).collect::<String>(), s.chars().count())) }, "r": entries(s)})).collect();
    json!({"idx": idx, "kind": "parse", "origin": origin, "res": res})
}
fn nesting(i: usize) -> Vec<String> {
    let n = [10usize, 100, 128][i % 3];
    let rep = |a: &str, mid: &str, b: &str| format!("{}{}{}", a.repeat(n), mid, b.repeat(n));
    vec![
        rep("(", "1", ")"), format!("({})", rep("opt ", "null", "")), format!("({})", rep("vec { ", "1", " }")), format!("({})", rep("record { a = ", "1", " }")),
        format!("({})", rep("variant { a = ", "null", " }")), rep("opt ", "nat", ""), rep("vec ", "nat", ""), rep("record { a : ", "nat", " }"), rep("variant { a : ", "nat", " }"),
        format!("type t = {};", rep("opt ", "t", "")), format!("type t = {};", rep("record { ", "nat", " }")), format!("service : {{ f : ({}) -> () }}", rep("func (", "", ") -> ()")),
        format!("({})", rep("func ((", "", ")) -> ()")), rep("/*", "x", "*/"), format!("\"{}\"", "\\u{41}".repeat(n * 10)), format!("({})", "1 : nat, ".repeat(n * 10)),
        // numerals of unusual length inside escapes and literals: digit runs of 8..64, with leading zeros and underscores
        format!("(\"\\u{{{}}}\")", "f".repeat([8usize, 9, 16, 17, 33, 64][i % 6])), format!("(\"\\u{{1{}}}\")", "0".repeat([7usize, 8, 15, 16, 17, 40][i % 6])),
        format!("(\"\\u{{{}41}}\")", "0".repeat([6usize, 14, 15, 16, 30, 62][i % 6])), format!("(\"\\u{{{}}}\")", "1_".repeat([4usize, 8, 9, 17, 20, 33][i % 6])),
        format!("(0x{})", "f".repeat([8usize, 16, 17, 32, 33, 64][i % 6])), format!("({}.{}e{})", "9".repeat(n), "9".repeat(n), "9".repeat([1usize, 3, 5, 10, 20, 40][i % 6])),
        format!("(record {{ {} = 1 }})", "9".repeat([9usize, 10, 11, 19, 20, 40][i % 6])), format!("type t = record {{ {} : nat }};", "4".repeat([9usize, 10, 11, 19, 20, 40][i % 6])),
    ]
}
pub fn run(o: &Opts) {
    let cases = read_cases(&o.cases);
    let mut out = Out::new();
    let mut idx = 0usize;
    for c in &cases {
        if idx >= o.start {
            if let Some(ts) = c.get("toks") {
                let toks: Vec<String> = ts.as_array().unwrap().iter().map(|x| x.as_str().unwrap().to_string()).collect();
                let mut strs: Vec<String> = (0..3).map(|k| instantiate(&toks, idx as u64 * 7 + k)).collect();
                strs.dedup();
                out.emit(&case_of_strings(idx, c["start"].as_str().unwrap_or("?"), strs));
            } else {
                let s = jstr(&c["chars"]);
                let strs = vec![s.clone(), format!("(\"{s}\")"), format!("/*{s}*/ (1)"), format!("type t = {s};"), format!("({s})"), format!("service : {{ \"{s}\" : () -> () }}"), format!("// {s}\n(1)")];
                out.emit(&case_of_strings(idx, "chars", strs));
            }
        }
        idx += 1;
    }
    for i in 0..o.n {
        if idx >= o.start { out.emit(&case_of_strings(idx, "nesting", nesting(i))); }
        idx += 1;
    }
}
