//! Native (typed) encoding/decoding over the corpus: C03 (native leg), C01, C08, C04 (native leg).
use crate::corpus::*;
use crate::proj::Flat;
use crate::util::*;
use candid::ser::IDLBuilder;
use candid::{Decode, Encode, Int, Nat, Principal, Reserved};
use rand::prelude::*;
use serde_json::{json, Value};
use std::collections::{BTreeMap, BTreeSet, HashMap, HashSet, VecDeque};
use std::marker::PhantomData;

pub trait Ops {
    fn name(&self) -> String;
    fn decl(&self, d: &mut Decl) -> String;
    /// add one random value of this type to a builder; returns its abstract value
    fn arg(&self, b: &mut IDLBuilder, b2: &mut IDLBuilder, g: &mut StdRng) -> Result<Value, String>;
    /// encode a random value, decode the bytes at the same type: C01 probe
    fn roundtrip(&self, g: &mut StdRng) -> Value;
    /// (T::ty(), env) projected: what the derive/memo machinery says the type is right now
    fn ty_now(&self) -> Value;
    /// native decode of arbitrary bytes: abstract value or error (C08)
    fn decode(&self, bytes: &[u8]) -> Value;
    fn ty(&self) -> candid::types::Type;
}
pub struct E<T>(pub PhantomData<T>);
impl<T: Corp> Ops for E<T> {
    fn name(&self) -> String { std::any::type_name::<T>().replace("alloc::", "").replace("collections::", "").replace("std::", "").replace("cv::corpus::", "").replace("candid::types::", "") }
    fn decl(&self, d: &mut Decl) -> String { T::decl(d) }
    fn arg(&self, b: &mut IDLBuilder, b2: &mut IDLBuilder, g: &mut StdRng) -> Result<Value, String> {
        let v = T::gen(g, 3);
        let a = v.absv();
        // the same value goes into a second builder: encoding the same arguments twice must give the same bytes
        match guard(|| { b.arg(&v)?; b2.arg(&v).map(|_| ()) }) { Ok(Ok(())) => Ok(a), Ok(Err(e)) => Err(e.to_string()), Err(s) => Err(format!("panic {s}")) }
    }
    fn roundtrip(&self, g: &mut StdRng) -> Value {
        let v = T::gen(g, 3);
        let bytes = match guard(|| Encode!(&v)) { Ok(Ok(b)) => b, Ok(Err(e)) => return json!({"enc_err": e.to_string()}), Err(s) => return json!({"panic": s, "at": "encode"}) };
        let r = guard(|| { let mut de = candid::de::IDLDeserialize::new(&bytes)?; let x = de.get_value::<T>()?; de.done()?; Ok::<T, candid::Error>(x) });
        let res = match r { Ok(Ok(x)) => if x.same(&v) { json!({"ok": 1}) } else { json!({"differs": x.absv()}) }, Ok(Err(e)) => json!({"err": 1, "msg": e.to_string().chars().take(160).collect::<String>()}), Err(s) => json!({"panic": s, "at": "decode"}) };
        json!({"v": v.absv(), "blob": bytesj(&bytes), "res": res})
    }
    fn ty_now(&self) -> Value {
        let env = candid::types::TypeEnv::new();
        let mut fl = Flat::new(&env);
        match guard(|| { let t = T::ty(); fl.ty(&t) }) { Ok(id) => json!({"t": id, "env": fl.nodes}), Err(s) => json!({"panic": s}) }
    }
    fn decode(&self, bytes: &[u8]) -> Value {
        match guard(|| Decode!(bytes, T)) { Ok(Ok(x)) => json!({"ok": x.absv()}), Ok(Err(e)) => json!({"err": 1, "msg": e.to_string().chars().take(160).collect::<String>()}), Err(s) => json!({"panic": s}) }
    }
    fn ty(&self) -> candid::types::Type { T::ty() }
}
macro_rules! e { ($($t:ty),* $(,)?) => { vec![$(Box::new(E::<$t>(PhantomData)) as Box<dyn Ops>),*] }; }
macro_rules! maps_for_key { ($v:ident; $k:ty) => {
    $v.extend(e!(BTreeMap<$k, Nat>, BTreeMap<$k, Int>, BTreeMap<$k, u128>, BTreeMap<$k, i128>, BTreeMap<$k, u64>, BTreeMap<$k, String>, BTreeMap<$k, f64>,
                 BTreeMap<$k, Option<Nat>>, BTreeMap<$k, Vec<u8>>, BTreeMap<$k, ()>, BTreeMap<$k, Principal>, BTreeMap<$k, S1>,
                 HashMap<$k, Nat>, HashMap<$k, Int>, HashMap<$k, i128>, HashMap<$k, String>, HashMap<$k, Vec<Int>>));
} }
macro_rules! containers_for { ($v:ident; $t:ty) => {
    $v.extend(e!($t, Option<$t>, Vec<$t>, VecDeque<$t>, Option<Option<$t>>, Vec<Option<$t>>, Option<Vec<$t>>, Vec<Vec<$t>>, Box<$t>, ($t,), ($t, u8), (String, $t, Nat), [$t; 2], Result<$t, String>, Wrapper<$t>));
} }
macro_rules! sets_for { ($v:ident; $t:ty) => { $v.extend(e!(BTreeSet<$t>, HashSet<$t>, Vec<BTreeSet<$t>>)); } }
pub fn registry() -> Vec<Box<dyn Ops>> {
    let mut v: Vec<Box<dyn Ops>> = vec![];
    maps_for_key!(v; u8); maps_for_key!(v; u32); maps_for_key!(v; i64); maps_for_key!(v; bool); maps_for_key!(v; String);
    maps_for_key!(v; Nat); maps_for_key!(v; Int); maps_for_key!(v; Principal); maps_for_key!(v; (u8, String));
    containers_for!(v; bool); containers_for!(v; u8); containers_for!(v; u16); containers_for!(v; u32); containers_for!(v; u64);
    containers_for!(v; i8); containers_for!(v; i16); containers_for!(v; i32); containers_for!(v; i64); containers_for!(v; f32); containers_for!(v; f64);
    containers_for!(v; u128); containers_for!(v; i128); containers_for!(v; Nat); containers_for!(v; Int); containers_for!(v; String); containers_for!(v; Principal);
    containers_for!(v; ()); containers_for!(v; Reserved); containers_for!(v; S1); containers_for!(v; E1); containers_for!(v; List); containers_for!(v; serde_bytes::ByteBuf);
    sets_for!(v; u8); sets_for!(v; i32); sets_for!(v; Nat); sets_for!(v; Int); sets_for!(v; String); sets_for!(v; Principal); sets_for!(v; bool); sets_for!(v; u128);
    v.extend(e!(S2, S3, S4, S5, Big, Unit, Newtype, TupleStruct, Expr, Node, Tree, Wrapper<List>, Wrapper<Wrapper<u8>>, F1, Sv1,
                Vec<F1>, Option<Sv1>, BTreeMap<String, List>, BTreeMap<String, Expr>, Vec<Tree>, Option<Box<Node>>, (Nat, Int, u128), Result<Nat, Int>, Result<(), E1>, BTreeMap<String, BTreeMap<String, Nat>>,
                BTreeMap<Nat, BTreeMap<Int, Nat>>, Vec<BTreeMap<u8, Int>>, Option<BTreeMap<String, i128>>, HashMap<String, HashMap<u8, Nat>>, [u8; 4], [Nat; 3], [[u8; 2]; 2], Vec<(Nat, Int)>, Vec<(String, String)>, Vec<(u8, u8)>));
    v
}

fn enc_case(idx: usize, reg: &[Box<dyn Ops>], g: &mut StdRng) -> Value {
    let nargs = *[1usize, 1, 1, 1, 2, 3, 0].choose(g).unwrap();
    let mut d = Decl::new();
    let mut names = vec![]; let mut wts = vec![]; let mut vals = vec![];
    // a builder per attempt and a twin fed with the same values (determinism)
    let picks: Vec<usize> = (0..nargs).map(|_| g.gen_range(0..reg.len())).collect();
    let mut b = IDLBuilder::new();
    let mut b2 = IDLBuilder::new();
    let mut fail = None;
    for p in &picks {
        let e = &reg[*p];
        names.push(e.name());
        wts.push(e.decl(&mut d));
        match e.arg(&mut b, &mut b2, g) { Ok(v) => vals.push(v), Err(m) => { fail = Some(m); break; } }
    }
    let ser = |b: &mut IDLBuilder| match guard(|| b.serialize_to_vec()) { Ok(Ok(x)) => Ok(x), Ok(Err(e)) => Err(e.to_string()), Err(s) => Err(format!("panic {s}")) };
    let blob = match fail { Some(m) => Err(m), None => ser(&mut b) };
    let again = ser(&mut b2);
    let mut r = json!({"idx": idx, "kind": "enc", "rust": names.join(" , "), "env": d.nodes, "wts": wts, "vals": vals,
           "blob": match &blob { Ok(b) => bytesj(b), Err(_) => json!([]) }, "again": match again { Ok(b) => bytesj(&b), Err(_) => json!("fail") },
           "untyped": {"skip": 1}, "rawvals": []});
    if let Err(m) = blob { r["encfail"] = json!(m); }
    r
}

pub fn run(o: &Opts) {
    let reg = registry();
    let mut out = Out::new();
    let mut g = StdRng::seed_from_u64(o.seed);
    let mode = o.extra.first().map(|s| s.as_str()).unwrap_or("enc");
    if mode == "list" { for e in &reg { println!("{}", e.name()); } return; }
    for idx in 0..o.n {
        let v = match mode { _ => enc_case(idx, &reg, &mut g) };
        if idx >= o.start { out.emit(&v); }
    }
}
