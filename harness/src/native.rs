//! Native (typed) encoding/decoding over the corpus: C03 (native leg), C01, C08, C04 (native leg).
use crate::corpus::*;
use crate::proj::Flat;
use crate::util::*;
use candid::ser::IDLBuilder;
use candid::types::bounded_vec::BoundedVec;
use candid::{Decode, Encode, Int, Nat, Principal, Reserved};
use rand::prelude::*;
use serde_json::{json, Value};
use std::collections::{BTreeMap, BTreeSet, HashMap, HashSet, VecDeque};
use std::marker::PhantomData;

pub trait Ops {
    fn name(&self) -> String;
    fn decl(&self, d: &mut Decl) -> String;
    /// add one random value of this type to a builder; returns its abstract value
    fn arg(&self, b: &mut IDLBuilder, b2: &mut IDLBuilder, g: &mut StdRng) -> Result<Value, String>;
    /// encode a random value, decode the bytes at the same type: C01 probe
    fn roundtrip(&self, g: &mut StdRng) -> Value;
    /// (T::ty(), env) projected: what the derive/memo machinery says the type is right now
    fn ty_now(&self) -> Value;
    /// native decode of arbitrary bytes: abstract value or error (C08)
    fn decode(&self, bytes: &[u8]) -> Value;
    fn ty(&self) -> candid::types::Type;
    /// encode a random value of this type; returns (abstract value, bytes)
    fn sample(&self, g: &mut StdRng) -> Result<(Value, Vec<u8>), String>;
    fn host(&self) -> &'static str;
    fn bound(&self) -> Value;
    /// native decode under quotas: outcome class, reported cost, peak allocation
    fn decode_with(&self, bytes: &[u8], d: Option<usize>, s: Option<usize>) -> Value;
    /// the type exported through a TypeContainer (named definitions + the type expression)
    fn export(&self) -> (candid::types::TypeEnv, candid::types::Type);
}
pub struct E<T>(pub PhantomData<T>);
impl<T: Corp> Ops for E<T> {
    fn name(&self) -> String { std::any::type_name::<T>().replace("alloc::", "").replace("collections::", "").replace("std::", "").replace("cv::corpus::", "").replace("candid::types::", "") }
    fn decl(&self, d: &mut Decl) -> String { T::decl(d) }
    fn arg(&self, b: &mut IDLBuilder, b2: &mut IDLBuilder, g: &mut StdRng) -> Result<Value, String> {
        let v = T::gen(g, 3);
        let a = v.absv();
        // the same value goes into a second builder: encoding the same arguments twice must give the same bytes
        match guard(|| { b.arg(&v)?; b2.arg(&v).map(|_| ()) }) { Ok(Ok(())) => Ok(a), Ok(Err(e)) => Err(e.to_string()), Err(s) => Err(format!("panic {s}")) }
    }
    fn roundtrip(&self, g: &mut StdRng) -> Value {
        let v = T::gen(g, 3);
        let bytes = match guard(|| Encode!(&v)) { Ok(Ok(b)) => b, Ok(Err(e)) => return json!({"v": v.absv(), "res": {"enc_err": e.to_string()}}), Err(s) => return json!({"v": v.absv(), "res": {"panic": s, "at": "encode"}}) };
        let r = guard(|| { let mut de = candid::de::IDLDeserialize::new(&bytes)?; let x = de.get_value::<T>()?; de.done()?; Ok::<T, candid::Error>(x) });
        let res = match r { Ok(Ok(x)) => if x.same(&v) { json!({"ok": 1}) } else { json!({"differs": x.absv()}) }, Ok(Err(e)) => json!({"err": 1, "msg": crate::util::errmsg(&e)}), Err(s) => json!({"panic": s, "at": "decode"}) };
        json!({"v": v.absv(), "blob": bytesj(&bytes), "res": res})
    }
    fn ty_now(&self) -> Value {
        let env = candid::types::TypeEnv::new();
        let mut fl = Flat::new(&env);
        match guard(|| { let t = T::ty(); fl.ty(&t) }) { Ok(id) => json!({"t": id, "env": fl.nodes}), Err(s) => json!({"panic": s}) }
    }
    fn decode(&self, bytes: &[u8]) -> Value {
        match guard(|| Decode!(bytes, T)) { Ok(Ok(x)) => json!({"ok": x.absv()}), Ok(Err(e)) => json!({"err": 1, "msg": crate::util::errmsg(&e)}), Err(s) => json!({"panic": s}) }
    }
    fn ty(&self) -> candid::types::Type { T::ty() }
    fn sample(&self, g: &mut StdRng) -> Result<(Value, Vec<u8>), String> {
        let v = T::gen(g, 3);
        match guard(|| Encode!(&v)) { Ok(Ok(b)) => Ok((v.absv(), b)), Ok(Err(e)) => Err(e.to_string()), Err(s) => Err(format!("panic {s}")) }
    }
    fn bound(&self) -> Value { T::bound() }
    fn export(&self) -> (candid::types::TypeEnv, candid::types::Type) { let mut tc = candid::types::internal::TypeContainer::new(); let t = tc.add::<T>(); (tc.env, t) }
    fn decode_with(&self, bytes: &[u8], d: Option<usize>, s: Option<usize>) -> Value {
        let mut c = candid::de::DecoderConfig::new();
        if let Some(d) = d { c.set_decoding_quota(d); }
        if let Some(s) = s { c.set_skipping_quota(s); }
        let base = crate::fuzz::peak_reset();
        let r = guard(|| { let mut de = candid::de::IDLDeserialize::new_with_config(bytes, &c)?; let x = de.get_value::<T>()?; de.done()?; let cost = de.get_config().compute_cost(&c); Ok::<_, candid::Error>((x.absv(), cost)) });
        let peak = crate::fuzz::peak_since(base);
        match r {
            Ok(Ok((a, cost))) => json!({"ok": [if self.host().contains("unordered") { canon(a) } else { a }], "cd": cost.decoding_quota.map(|x| x as i64).unwrap_or(-1), "cs": cost.skipping_quota.map(|x| x as i64).unwrap_or(-1), "peak": peak}),
            Ok(Err(e)) => { let m = format!("{e:?}"); if m.contains("cost exceeds the limit") { json!({"quota": 1, "peak": peak}) } else { json!({"err": 1, "msg": crate::util::errmsg(&e), "peak": peak}) } }
            Err(s) => json!({"panic": s, "peak": peak}),
        }
    }
    fn host(&self) -> &'static str {
        let n = std::any::type_name::<T>();
        // corpus structs with map fields: Big (g, h), S4 (m)
        let un = n.contains("Map<") || n.contains("Set<") || n.contains("Big") || n.contains("S4");
        let r128 = n.contains("u128") || n.contains("i128") || n.contains("Big");
        let arr = n.contains('[');
        match (un, r128, arr) { (false, false, false) => "exact", (true, false, false) => "unordered", (false, true, false) => "range128", (true, true, false) => "unordered,range128",
                                (false, false, true) => "array", (true, false, true) => "unordered,array", (false, true, true) => "range128,array", _ => "unordered,range128,array" }
    }
}
/// order-insensitive normal form for values of unordered host collections
fn canon(v: Value) -> Value {
    match v {
        Value::Object(mut o) => {
            if let Some(Value::Array(vs)) = o.remove("vs") { let mut xs: Vec<Value> = vs.into_iter().map(canon).collect(); xs.sort_by_key(|x| x.to_string()); o.insert("vs".into(), Value::Array(xs)); }
            if let Some(x) = o.remove("v") { o.insert("v".into(), canon(x)); }
            if let Some(Value::Array(fs)) = o.remove("fs") { o.insert("fs".into(), Value::Array(fs.into_iter().map(canon).collect())); }
            Value::Object(o)
        }
        o => o,
    }
}
macro_rules! e { ($($t:ty),* $(,)?) => { vec![$(Box::new(E::<$t>(PhantomData)) as Box<dyn Ops>),*] }; }
macro_rules! maps_for_key { ($v:ident; $k:ty) => {
    $v.extend(e!(BTreeMap<$k, Nat>, BTreeMap<$k, Int>, BTreeMap<$k, u128>, BTreeMap<$k, i128>, BTreeMap<$k, u64>, BTreeMap<$k, String>, BTreeMap<$k, f64>,
                 BTreeMap<$k, Option<Nat>>, BTreeMap<$k, Vec<u8>>, BTreeMap<$k, ()>, BTreeMap<$k, Principal>, BTreeMap<$k, S1>,
                 HashMap<$k, Nat>, HashMap<$k, Int>, HashMap<$k, i128>, HashMap<$k, String>, HashMap<$k, Vec<Int>>,
                 BTreeMap<$k, $k>, HashMap<$k, $k>, BTreeMap<$k, u32>, BTreeMap<$k, i64>, BTreeMap<$k, bool>, BTreeMap<$k, u8>, HashMap<$k, u32>));
} }
macro_rules! containers_for { ($v:ident; $t:ty) => {
    $v.extend(e!($t, Option<$t>, Vec<$t>, VecDeque<$t>, Option<Option<$t>>, Vec<Option<$t>>, Option<Vec<$t>>, Vec<Vec<$t>>, Box<$t>, ($t,), ($t, u8), (String, $t, Nat), [$t; 2], Result<$t, String>, Wrapper<$t>));
} }
macro_rules! sets_for { ($v:ident; $t:ty) => { $v.extend(e!(BTreeSet<$t>, HashSet<$t>, Vec<BTreeSet<$t>>)); } }
pub fn registry() -> Vec<Box<dyn Ops>> {
    let mut v: Vec<Box<dyn Ops>> = vec![];
    maps_for_key!(v; u8); maps_for_key!(v; u32); maps_for_key!(v; i64); maps_for_key!(v; bool); maps_for_key!(v; String);
    maps_for_key!(v; Nat); maps_for_key!(v; Int); maps_for_key!(v; Principal); maps_for_key!(v; (u8, String));
    containers_for!(v; bool); containers_for!(v; u8); containers_for!(v; u16); containers_for!(v; u32); containers_for!(v; u64);
    containers_for!(v; i8); containers_for!(v; i16); containers_for!(v; i32); containers_for!(v; i64); containers_for!(v; f32); containers_for!(v; f64);
    containers_for!(v; u128); containers_for!(v; i128); containers_for!(v; Nat); containers_for!(v; Int); containers_for!(v; String); containers_for!(v; Principal);
    containers_for!(v; ()); containers_for!(v; Reserved); containers_for!(v; S1); containers_for!(v; E1); containers_for!(v; List); containers_for!(v; serde_bytes::ByteBuf);
    sets_for!(v; u8); sets_for!(v; i32); sets_for!(v; Nat); sets_for!(v; Int); sets_for!(v; String); sets_for!(v; Principal); sets_for!(v; bool); sets_for!(v; u128);
    containers_for!(v; Empty0); containers_for!(v; Marker);
    v.extend(e!(Marker2, Vec<Marker2>, Vec<(Reserved, ((),))>, Vec<((),)>, Option<Vec<Marker2>>, BTreeMap<u8, Marker>, Vec<Vec<Marker>>, [Marker; 3]));
    v.extend(e!(S2, S3, S4, S5, Big, Unit, Newtype, TupleStruct, Expr, Node, Tree, Wrapper<List>, Wrapper<Wrapper<u8>>, F1, Sv1,
                Vec<F1>, Option<Sv1>, BTreeMap<String, List>, BTreeMap<String, Expr>, Vec<Tree>, Option<Box<Node>>, (Nat, Int, u128), Result<Nat, Int>, Result<(), E1>, BTreeMap<String, BTreeMap<String, Nat>>,
                BoundedVec<4, {usize::MAX}, {usize::MAX}, u64>, BoundedVec<{usize::MAX}, 16, {usize::MAX}, u64>, BoundedVec<{usize::MAX}, {usize::MAX}, 3, String>, BoundedVec<3, 5, 2, String>, BoundedVec<5, 4, {usize::MAX}, u8>,
                BTreeMap<Nat, BTreeMap<Int, Nat>>, Vec<BTreeMap<u8, Int>>, Option<BTreeMap<String, i128>>, HashMap<String, HashMap<u8, Nat>>, [u8; 4], [Nat; 3], [[u8; 2]; 2], Vec<(Nat, Int)>, Vec<(String, String)>, Vec<(u8, u8)>));
    v
}

fn enc_case(idx: usize, reg: &[Box<dyn Ops>], g: &mut StdRng) -> Value {
    let nargs = if g.gen_range(0..250) == 0 { 30 } else { *[1usize, 1, 1, 1, 2, 3, 0].choose(g).unwrap() };   // rarely: many arguments, a type table beyond 64 entries
    let mut d = Decl::new();
    let mut names = vec![]; let mut wts = vec![]; let mut vals = vec![];
    // a builder per attempt and a twin fed with the same values (determinism)
    let picks: Vec<usize> = (0..nargs).map(|_| g.gen_range(0..reg.len())).collect();
    let mut b = IDLBuilder::new();
    let mut b2 = IDLBuilder::new();
    let mut fail = None;
    for p in &picks {
        let e = &reg[*p];
        names.push(e.name());
        wts.push(e.decl(&mut d));
        match e.arg(&mut b, &mut b2, g) { Ok(v) => vals.push(v), Err(m) => { fail = Some(m); break; } }
    }
    let ser = |b: &mut IDLBuilder| match guard(|| b.serialize_to_vec()) { Ok(Ok(x)) => Ok(x), Ok(Err(e)) => Err(e.to_string()), Err(s) => Err(format!("panic {s}")) };
    let blob = match fail { Some(m) => Err(m), None => ser(&mut b) };
    let again = ser(&mut b2);
    let mut r = json!({"idx": idx, "kind": "enc", "rust": names.join(" , "), "env": d.nodes, "wts": wts, "vals": vals,
           "blob": match &blob { Ok(b) => bytesj(b), Err(_) => json!([]) }, "again": match again { Ok(b) => bytesj(&b), Err(_) => json!("fail") },
           "untyped": {"skip": 1}, "rawvals": []});
    if let Err(m) = blob { r["encfail"] = json!(m); }
    r
}

fn family(name: &str) -> String {
    // the container shape of a Rust type name, element types abstracted (used as the call-site family of a finding)
    let mut out = String::new();
    for tok in name.split(|c: char| !(c.is_alphanumeric() || c == '_')) {
        if matches!(tok, "BTreeMap" | "HashMap" | "BTreeSet" | "HashSet" | "Vec" | "VecDeque" | "Option" | "Box" | "Result" | "Wrapper") { out.push_str(tok); out.push('<'); }
    }
    if name.starts_with('(') { out.insert_str(0, "tuple"); }
    if name.starts_with('[') { out.insert_str(0, "array"); }
    if out.is_empty() { name.to_string() } else { out }
}
fn rt_case(idx: usize, reg: &[Box<dyn Ops>], g: &mut StdRng) -> Value {
    let e = &reg[g.gen_range(0..reg.len())];
    let mut d = Decl::new();
    let t = e.decl(&mut d);
    let r = e.roundtrip(g);
    let tn = if g.gen_range(0..8) == 0 { e.ty_now() } else { json!({"skip": 1}) };
    json!({"idx": idx, "kind": "rt", "rust": e.name(), "family": family(&e.name()), "env": d.nodes, "t": t, "rt": r, "ty_now": tn})
}
/// C08: arbitrary messages decoded natively at T and untyped at T's declared type
fn dec_case(idx: usize, reg: &[Box<dyn Ops>], g: &mut crate::gen::G) -> Value {
    use crate::absty::Abs;
    let e = &reg[g.rng_range(0, reg.len())];
    let mut d = Decl::new();
    let t = e.decl(&mut d);
    let nodes = d.nodes.clone();
    let abs = Abs::new(&nodes);
    let env = abs.type_env();
    let decl_ty = abs.ty(&t);
    // a message: own encoding, or a value of a related wire type, or a layout twin, possibly mutated
    let choice = g.rng_range(0, 10);
    let bytes: Vec<u8> = if choice < 3 {
        match e.sample(&mut g.rng) { Ok((_, b)) => b, Err(_) => return json!({"idx": idx, "kind": "skip"}) }
    } else {
        g.ndefs = 0;
        let wt = match choice { 3..=5 => g.related(&env, &decl_ty, 3), 6 => twin_one(g, &env, &decl_ty, 4), 7 => twin(&env, &decl_ty, 3), _ => g.typ(2) };
        let v = match g.val(&env, &wt, 4) { Some(v) => v, None => return json!({"idx": idx, "kind": "skip"}) };
        let args = candid::IDLArgs { args: vec![v] };
        match guard(|| args.to_bytes_with_types(&env, &[wt.clone()])) { Ok(Ok(b)) => b, _ => return json!({"idx": idx, "kind": "skip"}) }
    };
    let mut bytes = bytes;
    if g.rng_range(0, 6) == 0 { crate::msg::mutate(g, &mut bytes); }
    let native = e.decode(&bytes);
    let untyped = crate::msg::decode_all(&bytes, &env, &[decl_ty.clone()]);
    // untyped decoding at the type the derive macro / impls compute (T::ty()), the statement's "T's Candid type"
    let real_ty = guard(|| e.ty());
    let untyped_real = match real_ty { Ok(rt) => crate::msg::decode_all(&bytes, &candid::types::TypeEnv::new(), &[rt]), Err(s) => json!({"panic": s}) };
    json!({"idx": idx, "kind": "dec", "rust": e.name(), "family": family(&e.name()), "host": e.host(), "bound": e.bound(), "env": nodes, "t": t, "blob": bytesj(&bytes), "native": native, "untyped": untyped, "untyped_real": untyped_real})
}
/// a type with the same byte layout as (part of) t but a different meaning
pub fn twin(env: &candid::types::TypeEnv, t: &candid::types::Type, depth: u32) -> candid::types::Type {
    use candid::types::{Field, TypeInner::*};
    if depth == 0 { return t.clone(); }
    let t = env.trace_type(t).unwrap();
    let r: candid::types::TypeInner = match t.as_ref() {
        Text => Vec(Nat8.into()),
        Principal => Vec(Nat8.into()),
        Nat => Nat8, Int => Int8, Nat8 => Int8, Nat16 => Int16, Nat32 => Float32, Nat64 => Int64, Int64 => Float64, Float64 => Nat64, Bool => Nat8,
        Vec(a) => match env.trace_type(a).unwrap().as_ref() { Nat8 => Text, Nat => Vec(Nat8.into()), Int => Vec(Nat.into()), _ => Vec(twin(env, a, depth - 1)) },
        Opt(a) => Opt(twin(env, a, depth - 1)),
        Record(fs) => Record(fs.iter().map(|f| Field { id: f.id.clone(), ty: twin(env, &f.ty, depth - 1) }).collect()),
        Variant(fs) => Variant(fs.iter().map(|f| Field { id: f.id.clone(), ty: twin(env, &f.ty, depth - 1) }).collect()),
        o => o.clone(),
    };
    r.into()
}

/// like `twin`, but exactly one leaf position is given another meaning and everything else stays as declared
/// (e.g. only the key of a map entry, only one field of a struct)
pub fn twin_one(g: &mut crate::gen::G, env: &candid::types::TypeEnv, t: &candid::types::Type, depth: u32) -> candid::types::Type {
    use candid::types::{Field, TypeInner::*};
    if depth == 0 { return t.clone(); }
    let t = env.trace_type(t).unwrap();
    let pick = |g: &mut crate::gen::G, xs: &[candid::types::TypeInner]| -> candid::types::TypeInner { xs[g.rng_range(0, xs.len())].clone() };
    let r: candid::types::TypeInner = match t.as_ref() {
        Text => Vec(Nat8.into()),
        Principal => Vec(Nat8.into()),
        Nat => pick(g, &[Nat8, Int]), Int => pick(g, &[Int8, Nat]), Nat8 => pick(g, &[Int8, Bool]), Int8 => Nat8, Nat16 => Int16, Int16 => Nat16,
        Nat32 => pick(g, &[Int32, Float32]), Int32 => pick(g, &[Nat32, Float32]), Float32 => pick(g, &[Nat32, Int32]),
        Nat64 => pick(g, &[Int64, Float64]), Int64 => pick(g, &[Nat64, Float64]), Float64 => pick(g, &[Nat64, Int64]), Bool => pick(g, &[Nat8, Int8]),
        Vec(a) => Vec(twin_one(g, env, a, depth - 1)),
        Opt(a) => Opt(twin_one(g, env, a, depth - 1)),
        Record(fs) if !fs.is_empty() => { let k = g.rng_range(0, fs.len()); Record(fs.iter().enumerate().map(|(i, f)| Field { id: f.id.clone(), ty: if i == k { twin_one(g, env, &f.ty, depth - 1) } else { f.ty.clone() } }).collect()) }
        Variant(fs) if !fs.is_empty() => { let k = g.rng_range(0, fs.len()); Variant(fs.iter().enumerate().map(|(i, f)| Field { id: f.id.clone(), ty: if i == k { twin_one(g, env, &f.ty, depth - 1) } else { f.ty.clone() } }).collect()) }
        o => o.clone(),
    };
    r.into()
}

// ---- C04 native leg: pairs (T, T') related by construction
pub struct Pair { pub from: Box<dyn Ops>, pub to: Box<dyn Ops> }
macro_rules! p { ($a:ty => $b:ty) => { Pair { from: Box::new(E::<$a>(PhantomData)), to: Box::new(E::<$b>(PhantomData)) } }; }

pub fn pairs() -> Vec<Pair> {
    vec![
        p!(Nat => Int), p!(Vec<Nat> => Vec<Int>), p!(Option<Nat> => Option<Int>), p!(BTreeMap<String, Nat> => BTreeMap<String, Int>), p!(BTreeMap<u8, Nat> => BTreeMap<u8, Int>),
        p!(u8 => Option<u8>), p!(String => Option<String>), p!(Nat => Option<Int>), p!(S1 => Option<S1>), p!(Vec<u8> => Option<Vec<u8>>), p!(List => Option<List>), p!(E1 => Option<E1>),
        p!(S1 => Reserved), p!(Vec<S2> => Reserved), p!(E1 => Reserved), p!(Nat => Reserved), p!(BTreeMap<String, S1> => Reserved),
        p!(S1 => S1Plus), p!(S1 => S1Minus), p!(Vec<S1> => Vec<S1Plus>), p!(Option<S1> => Option<S1Minus>), p!(BTreeMap<u8, S1> => BTreeMap<u8, S1Plus>), p!(Wrapper<S1> => Wrapper<S1Minus>),
        p!(E1Small => E1), p!(Vec<E1Small> => Vec<E1>), p!(Option<E1Small> => Option<E1>), p!(Result<Nat, String> => Result<Int, String>),
        p!((u8, String, Nat) => (u8, String)), p!((u8, String) => (u8,)), p!(Vec<(Nat, Int, u8)> => Vec<(Nat, Int)>), p!(Vec<(Nat, Int, Option<u8>)> => BTreeMap<Nat, Int>),
        p!(Vec<(String, Nat, Option<u8>)> => BTreeMap<String, Nat>), p!(Vec<(u8, S1)> => BTreeMap<u8, S1Minus>), p!((u8, u8, Option<Nat>) => TupleStruct2),
        p!(Sv1 => Principal), p!(Vec<Sv1> => Vec<Principal>), p!(F1 => F1Wide), p!(Sv1 => Sv1Narrow),
        p!(List => ListPlus), p!(Tree => Reserved), p!(Vec<Option<Nat>> => Vec<Option<Int>>), p!(Nat => Int), p!(u8 => Reserved), p!(() => Option<u8>), p!(Reserved => Option<Nat>),
    ]
}
fn up_case(idx: usize, ps: &[Pair], g: &mut StdRng) -> Value {
    use crate::absty::Abs;
    let p = &ps[g.gen_range(0..ps.len())];
    let mut d = Decl::new();
    let tf = p.from.decl(&mut d);
    let tt = p.to.decl(&mut d);
    let nodes = d.nodes.clone();
    let abs = Abs::new(&nodes);
    let env = abs.type_env();
    let (v, bytes) = match p.from.sample(g) { Ok(x) => x, Err(e) => return json!({"idx": idx, "kind": "skip", "why": e}) };
    let sub = match guard(|| { let mut gm = std::collections::HashSet::new(); candid::types::subtype::subtype_with_config(candid::types::subtype::OptReport::Silence, &mut gm, &candid::types::TypeEnv::new(), &p.from.ty(), &p.to.ty()).is_ok() }) { Ok(true) => 1, Ok(false) => 0, Err(_) => 2 };
    let native = p.to.decode(&bytes);
    let untyped = crate::msg::decode_all(&bytes, &env, &[abs.ty(&tt)]);
    json!({"idx": idx, "kind": "up", "from": p.from.name(), "to": p.to.name(), "from_family": family(&p.from.name()), "to_family": family(&p.to.name()), "host": p.to.host(),
           "env": nodes, "tf": tf, "tt": tt, "v": v, "sub": sub, "blob": bytesj(&bytes), "blob_hex": bytes.iter().map(|b| format!("{b:02x}")).collect::<String>(), "native": native, "untyped": untyped})
}

/// C12: a type environment exported from Rust types, printed as .did and re-checked
fn export_case(idx: usize, reg: &[Box<dyn Ops>], g: &mut StdRng) -> Value {
    use candid::types::{Function, TypeInner};
    let n = g.gen_range(1..4);
    let mut env = candid::types::TypeEnv::new();
    let mut ms = vec![];
    for i in 0..n {
        let e = &reg[g.gen_range(0..reg.len())];
        let r = guard(|| e.export());
        let (en, t) = match r { Ok(x) => x, Err(s) => return json!({"idx": idx, "kind": "pp", "origin": "export", "src": e.name(), "g": {"nodes": {}, "defs": {}, "actor": "none", "init": []}, "prints": [{"which": "types", "same": 1, "text": "", "re": {"panic": s}}]}) };
        for (k, v) in en.0.iter() { env.0.insert(k.clone(), v.clone()); }
        ms.push((format!("m{i}"), TypeInner::Func(Function { modes: vec![], args: vec![t.clone()], rets: vec![t] }).into()));
    }
    let actor: candid::types::Type = TypeInner::Service(ms).into();
    let src0 = match guard(|| candid::pretty::candid::compile(&env, &Some(actor.clone()))) { Ok(s) => s, Err(s) => return json!({"idx": idx, "kind": "pp", "origin": "export", "src": "", "g": {"nodes": {}, "defs": {}, "actor": "none", "init": []}, "prints": [{"which": "types", "same": 1, "text": "", "re": {"panic": s}}]}) };
    let c0 = crate::prog::Checked { env, actor: Some(actor), prog: "".parse().unwrap(), src: String::new() };
    let g0 = crate::prog::graph(&c0, "s");
    let again = guard(|| candid::pretty::candid::compile(&c0.env, &c0.actor)).unwrap_or_default();
    let re = match crate::prog::check_src(&src0) { Ok(Ok(c2)) => json!({"ok": crate::prog::graph(&c2, "r")}), Ok(Err(e)) => json!({"err": e.chars().take(200).collect::<String>()}), Err(s) => json!({"panic": s}) };
    json!({"idx": idx, "kind": "pp", "origin": "export", "src": src0.chars().take(1500).collect::<String>(), "g": g0, "prints": [{"which": "types", "same": (again == src0) as u8, "text": src0.chars().take(1500).collect::<String>(), "re": re}]})
}

pub fn run(o: &Opts) {
    let reg = registry();
    let ps = pairs();
    let mut out = Out::new();
    let mut g = StdRng::seed_from_u64(o.seed);
    let mut gg = crate::gen::G::new(o.seed);
    let mode = o.extra.first().map(|s| s.as_str()).unwrap_or("enc");
    if mode == "list" { for e in &reg { println!("{}", e.name()); } return; }
    if mode == "hist" { return crate::memo::run(o); }
    for idx in 0..o.n {
        let v = match mode { "rt" => rt_case(idx, &reg, &mut g), "dec" => dec_case(idx, &reg, &mut gg), "up" => up_case(idx, &ps, &mut g), "export" => export_case(idx, &reg, &mut g), _ => enc_case(idx, &reg, &mut g) };
        if idx >= o.start { out.emit(&v); }
    }
}
