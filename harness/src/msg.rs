//! C02 / C03 / C04 / C10: untyped encoding and decoding of messages.
use crate::absty::Abs;
use crate::proj::{proj_args, proj_value, Flat};
use crate::util::*;
use candid::types::value::{IDLArgs, IDLValue};
use candid::types::{Type, TypeEnv};
use candid::de::IDLDeserialize;
use rand::Rng;
use serde_json::{json, Value};

fn out_args(r: Result<candid::Result<IDLArgs>, String>) -> Value {
    match r { Ok(Ok(a)) => json!({"ok": proj_args(&a)}), Ok(Err(e)) => json!({"err": 1, "msg": crate::util::errmsg(&e)}), Err(s) => json!({"panic": s}) }
}
pub fn decode_all(b: &[u8], env: &TypeEnv, types: &[Type]) -> Value {
    out_args(guard(|| { let mut cfg = candid::DecoderConfig::new(); cfg.set_decoding_quota(20_000_000); IDLArgs::from_bytes_with_types_with_config(b, env, types, &cfg) }))
}
/// the step-wise session API: new, get_value_with_type*, done
pub fn decode_steps(b: &[u8], env: &TypeEnv, types: &[Type]) -> Value {
    out_args(guard(|| {
        let mut cfg = candid::DecoderConfig::new(); cfg.set_decoding_quota(20_000_000);
        let mut de = IDLDeserialize::new_with_config(b, &cfg)?;
        let mut args = vec![];
        for t in types { args.push(de.get_value_with_type(env, t)?); }
        de.done()?;
        Ok(IDLArgs { args })
    }))
}
pub fn dec_record(idx: usize, kind: &str, envj: Value, tids: Vec<String>, env: &TypeEnv, types: &[Type], blob: &[u8]) -> Value {
    json!({"idx": idx, "kind": kind, "env": envj, "types": tids, "blob": bytesj(blob), "real": decode_all(blob, env, types), "step": decode_steps(blob, env, types)})
}
pub fn tlc_dec_case(idx: usize, c: &Value) -> Value {
    let envj = c["env"].as_object().unwrap();
    let a = Abs::new(envj);
    let env = a.type_env();
    let tids: Vec<String> = c["et"].as_array().unwrap().iter().map(|x| x.as_str().unwrap().to_string()).collect();
    let types: Vec<Type> = tids.iter().map(|t| a.ty(t)).collect();
    dec_record(idx, "dec", c["env"].clone(), tids, &env, &types, &jbytes(&c["bytes"]))
}

pub struct RandMsg { pub env: TypeEnv, pub wts: Vec<Type>, pub args: IDLArgs, pub bytes: Vec<u8> }
pub fn rand_msg(g: &mut crate::gen::G, min_args: usize) -> RandMsg {
    loop {
        let nd = g.rng_range(1, 4);
        let env = g.env(nd);
        let nargs = g.rng_range(min_args, 3);
        let mut wts = vec![]; let mut vals = vec![]; let mut ok = true;
        for _ in 0..nargs {
            let t = g.typ(2);
            match g.val(&env, &t, 4) { Some(v) => { wts.push(t); vals.push(v); } None => { ok = false; break; } }
        }
        if !ok { continue; }
        let args = IDLArgs { args: vals };
        let bytes = match guard(|| args.to_bytes_with_types(&env, &wts)) { Ok(Ok(b)) => b, _ => continue };
        return RandMsg { env, wts, args, bytes };
    }
}
/// random valid message decoded at related expected types (C02), and the encoder's output judged (C03)
pub fn rand_dec_case(idx: usize, g: &mut crate::gen::G) -> Value {
    let m = rand_msg(g, 0);
    let nargs = m.wts.len();
    let ne = match g.rng_range(0, 10) { 0 => nargs + 1, 1 => nargs.saturating_sub(1), _ => nargs };
    let mut ets = vec![];
    for j in 0..ne { if j < nargs { ets.push(g.related(&m.env, &m.wts[j], 3)); } else { ets.push(g.typ(1)); } }
    let mut fl = Flat::new(&m.env);
    let tids: Vec<String> = ets.iter().map(|t| fl.ty(t)).collect();
    dec_record(idx, "dec", json!(fl.nodes), tids, &m.env, &ets, &m.bytes)
}
pub fn mutate(g: &mut crate::gen::G, bytes: &mut Vec<u8>) {
    let nm = g.rng_range(1, 4);
    for _ in 0..nm {
        if bytes.len() <= 4 { break; }
        let pos = g.rng_range(4, bytes.len());
        match g.rng_range(0, 8) {
            0 => { bytes[pos] = g.rng.gen(); }
            1 => { bytes[pos] ^= 1 << g.rng_range(0, 8); }
            2 => { bytes.truncate(pos); }
            3 => { let b = [0u8, 1, 0x7f, 0x80, 0xff, 0x6e, 0x6d, 0x6c, 0x6b, 0x6a, 0x69, 0x68][g.rng_range(0, 12)]; bytes.insert(pos, b); }
            4 => { bytes.remove(pos); }
            5 => { let x = bytes[pos]; bytes.insert(pos, x); }
            6 => { bytes[pos] |= 0x80; bytes.insert(pos + 1, [0u8, 0x7f, 0x80][g.rng_range(0, 3)]); }   // over-long LEB
            _ => { bytes[pos] = bytes[pos].wrapping_add(1); }
        }
    }
}
pub fn mut_dec_case(idx: usize, g: &mut crate::gen::G) -> Value {
    let m = rand_msg(g, 1);
    let mut bytes = m.bytes.clone();
    mutate(g, &mut bytes);
    let ets: Vec<Type> = if g.rng_range(0, 3) == 0 { m.wts.iter().map(|t| g.related(&m.env, t, 2)).collect() } else { m.wts.clone() };
    let mut fl = Flat::new(&m.env);
    let tids: Vec<String> = ets.iter().map(|t| fl.ty(t)).collect();
    dec_record(idx, "dec", json!(fl.nodes), tids, &m.env, &ets, &bytes)
}
/// hand-shaped messages around reference values and skipped data: a function reference whose method
/// name is (in)valid UTF-8, read directly, skipped as a surplus field / argument, or dropped by a failed opt
pub fn template_dec_case(idx: usize, g: &mut crate::gen::G) -> Value {
    use candid::types::{Field, Function, Label, TypeInner};
    use std::rc::Rc;
    let names: [&[u8]; 8] = [b"m", b"", b"\xc3\xa9", b"\xff", b"a\xc0\x80", b"\xed\xa0\x80", b"\xf4\x90\x80\x80", b"ok\xe2\x82"];
    let name = names[g.rng_range(0, names.len())];
    let plen = g.rng_range(0, 31);
    let mut fval = vec![1u8, 1, plen as u8];
    fval.extend((0..plen).map(|i| i as u8));
    fval.push(name.len() as u8);
    fval.extend_from_slice(name);
    let func_t: Type = TypeInner::Func(Function { modes: vec![], args: vec![], rets: vec![] }).into();
    let rec = |fs: Vec<(u32, Type)>| -> Type { TypeInner::Record(fs.into_iter().map(|(i, t)| Field { id: Rc::new(Label::Id(i)), ty: t }).collect()).into() };
    // table: 0 = func () -> (); 1 = record { 0 : nat8; 1 : func }; 2 = opt func
    let table: &[u8] = &[3, 0x6a, 0, 0, 0, 0x6c, 2, 0, 0x7b, 1, 0, 0x6e, 0];
    let (argt, mut vals, ets): (Vec<u8>, Vec<u8>, Vec<Type>) = match g.rng_range(0, 6) {
        0 => (vec![1, 0], fval.clone(), vec![func_t.clone()]),
        1 => (vec![1, 1], { let mut v = vec![7u8]; v.extend(&fval); v }, vec![rec(vec![(0, TypeInner::Nat8.into())])]),          // surplus field
        2 => (vec![2, 0x7b, 0], { let mut v = vec![7u8]; v.extend(&fval); v }, vec![TypeInner::Nat8.into()]),                      // surplus argument
        3 => (vec![1, 2], { let mut v = vec![1u8]; v.extend(&fval); v }, vec![TypeInner::Opt(TypeInner::Nat.into()).into()]),      // failed coercion under opt
        4 => (vec![1, 0], fval.clone(), vec![TypeInner::Reserved.into()]),
        _ => (vec![1, 1], { let mut v = vec![7u8]; v.extend(&fval); v }, vec![rec(vec![(0, TypeInner::Nat8.into()), (1, func_t.clone())])]),
    };
    let mut blob = b"DIDL".to_vec();
    blob.extend_from_slice(table);
    blob.extend(argt);
    blob.append(&mut vals);
    let env = TypeEnv::new();
    let mut fl = Flat::new(&env);
    let tids: Vec<String> = ets.iter().map(|t| fl.ty(t)).collect();
    dec_record(idx, "dec", json!(fl.nodes), tids, &env, &ets, &blob)
}
/// several *reference* values in one message whose types mention two mutually recursive families that agree or
/// differ deep inside (wire family A/C, expected family B/D): the decoder decides `wire reference type <: expected
/// reference type` for each, one after the other, with whatever it remembers from the earlier ones
pub fn ref_memo_case(idx: usize, g: &mut crate::gen::G) -> Value {
    use candid::types::{Field, Function, FuncMode, Label, TypeInner};
    use std::rc::Rc;
    let var = |s: &str| -> Type { TypeInner::Var(s.to_string()).into() };
    let rec = |fs: Vec<(u32, Type)>| -> Type { TypeInner::Record(fs.into_iter().map(|(i, t)| Field { id: Rc::new(Label::Id(i)), ty: t }).collect()).into() };
    let prims = [TypeInner::Nat, TypeInner::Text, TypeInner::Int, TypeInner::Null];
    let p1: Type = prims[g.rng_range(0, prims.len())].clone().into();
    let p2: Type = if g.rng_range(0, 3) == 0 { p1.clone() } else { prims[g.rng_range(0, prims.len())].clone().into() };
    let link = g.rng_range(0, 3);
    let wrap = |t: Type, k: usize| -> Type { match k { 0 => TypeInner::Opt(t).into(), 1 => TypeInner::Opt(t).into(), _ => TypeInner::Vec(t).into() } };
    let mut env = TypeEnv::new();
    let self_rec = g.rng_range(0, 2) == 0;
    if self_rec {
        // W = record { 0 : vec W; 1 : p }   R = record { 0 : vec R; 1 : q }
        env.0.insert("A".into(), rec(vec![(0, wrap(var("A"), 2)), (1, p1)]));
        env.0.insert("B".into(), rec(vec![(0, wrap(var("B"), 2)), (1, p2)]));
        env.0.insert("C".into(), wrap(var("A"), link));
        env.0.insert("D".into(), wrap(var("B"), link));
    } else {
        env.0.insert("A".into(), rec(vec![(0, wrap(var("C"), link)), (1, p1)]));
        env.0.insert("B".into(), rec(vec![(0, wrap(var("D"), link)), (1, p2)]));
        env.0.insert("C".into(), rec(vec![(0, wrap(var("A"), 1))]));
        env.0.insert("D".into(), rec(vec![(0, wrap(var("B"), 1))]));
    }
    let f = |args: Vec<Type>, rets: Vec<Type>, modes: Vec<FuncMode>| -> Type { TypeInner::Func(Function { modes, args, rets }).into() };
    // reference context k around t; returns the type and whether it is a function (else service) reference
    let refctx = |k: usize, t: Type| -> (Type, bool) { match k {
        0 => (f(vec![], vec![t], vec![]), true),
        1 => (f(vec![t], vec![], vec![]), true),
        2 => (f(vec![], vec![TypeInner::Vec(t).into()], vec![FuncMode::Query]), true),
        3 => (TypeInner::Service(vec![("m".to_string(), f(vec![], vec![t], vec![]))]).into(), false),
        _ => (TypeInner::Service(vec![("m".to_string(), f(vec![t.clone()], vec![t], vec![]))]).into(), false),
    } };
    // what the references mention: the families themselves, or the component types inside them (the pairs a
    // co-inductive check of A <: B passes through)
    let comp = |a: &str| -> Type { if self_rec { wrap(var(a), 2) } else { wrap(var(if a == "A" { "C" } else { "D" }), link) } };
    let pairs: Vec<(Type, Type)> = vec![(var("A"), var("B")), (var("A"), var("B")), (var("C"), var("D")), (comp("A"), comp("B")), (comp("A"), comp("B")), (var("A"), var("A"))];
    let n = g.rng_range(2, 4);
    let pr = candid::Principal::from_slice(&[1, 2, 3]);
    let mut wts = vec![]; let mut ets = vec![]; let mut vals = vec![];
    let directed = g.rng_range(0, 2) == 0;      // first the families themselves in a covariant position, then their components
    for j in 0..n {
        let (l, r) = if directed { if j == 0 { pairs[0].clone() } else { pairs[g.rng_range(2, 5)].clone() } } else { pairs[g.rng_range(0, pairs.len())].clone() };
        let k = if directed { [0usize, 0, 3][g.rng_range(0, 3)] } else { [0usize, 0, 1, 2, 3, 4][g.rng_range(0, 6)] };
        let (wt, isf) = refctx(k, l);
        let (et, _) = refctx(k, r);
        let v = if isf { IDLValue::Func(pr, "m".to_string()) } else { IDLValue::Service(pr) };
        if directed || g.rng_range(0, 4) != 0 { wts.push(TypeInner::Opt(wt).into()); ets.push(TypeInner::Opt(et).into()); vals.push(IDLValue::Opt(Box::new(v))); }
        else { wts.push(wt); ets.push(et); vals.push(v); }
    }
    // as separate arguments, or as the fields of one record argument
    let (wts, ets, vals) = if g.rng_range(0, 2) == 0 { (wts, ets, vals) } else {
        let wf: Vec<(u32, Type)> = wts.iter().cloned().enumerate().map(|(i, t)| (i as u32, t)).collect();
        let ef: Vec<(u32, Type)> = ets.iter().cloned().enumerate().map(|(i, t)| (i as u32, t)).collect();
        let vf = vals.into_iter().enumerate().map(|(i, v)| candid::types::value::IDLField { id: Label::Id(i as u32), val: v }).collect();
        (vec![rec(wf)], vec![rec(ef)], vec![IDLValue::Record(vf)])
    };
    let args = IDLArgs { args: vals };
    let bytes = match guard(|| args.to_bytes_with_types(&env, &wts)) { Ok(Ok(b)) => b, _ => return template_dec_case(idx, g) };
    let mut fl = Flat::new(&env);
    let tids: Vec<String> = ets.iter().map(|t| fl.ty(t)).collect();
    dec_record(idx, "dec", json!(fl.nodes), tids, &env, &ets, &bytes)
}
/// C03: what the real encoders produce, with the declared types and the abstract values
/// a message whose type table is large (more than 64, 128 entries: multi-byte type indices)
fn wide_msg(g: &mut crate::gen::G) -> RandMsg {
    use candid::types::{Field, Label, TypeInner};
    use candid::types::value::IDLField;
    use std::rc::Rc;
    let n = [40usize, 66, 70, 130][g.rng_range(0, 4)];
    let mut fs = vec![]; let mut vs = vec![];
    for i in 0..n {
        // pairwise distinct composite types: record { i : nat8 } wrapped in 0-2 options / a vector
        let inner: Type = TypeInner::Record(vec![Field { id: Rc::new(Label::Id(i as u32)), ty: TypeInner::Nat8.into() }]).into();
        let iv = IDLValue::Record(vec![IDLField { id: Label::Id(i as u32), val: IDLValue::Nat8(i as u8) }]);
        let (t, v): (Type, IDLValue) = match i % 4 {
            0 => (inner, iv),
            1 => (TypeInner::Opt(inner).into(), IDLValue::Opt(Box::new(iv))),
            2 => (TypeInner::Vec(inner).into(), IDLValue::Vec(vec![iv.clone(), iv])),
            _ => (TypeInner::Opt(TypeInner::Opt(inner).into()).into(), if g.rng_range(0, 2) == 0 { IDLValue::None } else { IDLValue::Opt(Box::new(IDLValue::Opt(Box::new(iv)))) }),
        };
        fs.push(Field { id: Rc::new(Label::Id(1000 + i as u32)), ty: t });
        vs.push(IDLField { id: Label::Id(1000 + i as u32), val: v });
    }
    let env = TypeEnv::new();
    let t: Type = TypeInner::Record(fs).into();
    let args = IDLArgs { args: vec![IDLValue::Record(vs)] };
    let bytes = args.to_bytes_with_types(&env, &[t.clone()]).unwrap_or_default();
    RandMsg { env, wts: vec![t], args, bytes }
}
pub fn enc_case(idx: usize, g: &mut crate::gen::G) -> Value {
    let m = if g.rng_range(0, 150) == 0 { wide_msg(g) } else { rand_msg(g, 0) };
    let mut fl = Flat::new(&m.env);
    let wids: Vec<String> = m.wts.iter().map(|t| fl.ty(t)).collect();
    let ann = m.args.clone().annotate_types(true, &m.env, &m.wts);
    let again = guard(|| m.args.to_bytes_with_types(&m.env, &m.wts));
    let again = match again { Ok(Ok(b)) => bytesj(&b), _ => json!("fail") };
    // the self-describing encoder (types inferred from the values)
    // the self-describing encoder infers the type from the value; its documented input is a value as the text
    // parser produces it (variant index 0) whose vectors are homogeneous
    let norm = IDLArgs { args: m.args.args.iter().map(normalize).collect() };
    let untyped = if m.args.args.iter().all(homogeneous) { match guard(|| norm.to_bytes()) { Ok(Ok(b)) => json!({"ok": bytesj(&b)}), Ok(Err(_)) => json!({"err": 1}), Err(s) => json!({"panic": s}) } } else { json!({"skip": 1}) };
    let _ = ann;
    json!({"idx": idx, "kind": "enc", "env": fl.nodes, "wts": wids, "vals": proj_args(&m.args),
           "blob": bytesj(&m.bytes), "again": again, "untyped": untyped, "rawvals": proj_args(&m.args)})
}
pub fn normalize(v: &IDLValue) -> IDLValue {
    use candid::types::value::{IDLField, VariantValue};
    match v {
        IDLValue::Opt(x) => IDLValue::Opt(Box::new(normalize(x))),
        IDLValue::Vec(xs) => IDLValue::Vec(xs.iter().map(normalize).collect()),
        IDLValue::Record(fs) => IDLValue::Record(fs.iter().map(|f| IDLField { id: f.id.clone(), val: normalize(&f.val) }).collect()),
        IDLValue::Variant(x) => IDLValue::Variant(VariantValue(Box::new(IDLField { id: x.0.id.clone(), val: normalize(&x.0.val) }), 0)),
        o => o.clone(),
    }
}
pub fn homogeneous(v: &IDLValue) -> bool {
    match v {
        IDLValue::Opt(x) => homogeneous(x),
        IDLValue::Vec(xs) => xs.iter().all(homogeneous) && xs.windows(2).all(|w| w[0].value_ty() == w[1].value_ty()),
        IDLValue::Record(fs) => fs.iter().all(|f| homogeneous(&f.val)),
        IDLValue::Variant(x) => homogeneous(&x.0.val),
        _ => true,
    }
}
pub fn tlc_enc_case(idx: usize, c: &Value) -> Value {
    // TLC supplies (env, type, abstract value); the real encoder encodes it
    let envj = c["env"].as_object().unwrap();
    let a = Abs::new(envj);
    let env = a.type_env();
    let wids: Vec<String> = c["wts"].as_array().unwrap().iter().map(|x| x.as_str().unwrap().to_string()).collect();
    let wts: Vec<Type> = wids.iter().map(|t| a.ty(t)).collect();
    let vals: Vec<IDLValue> = c["vals"].as_array().unwrap().iter().zip(wts.iter()).map(|(v, t)| crate::absval::to_idl(v, &env, t)).collect();
    let args = IDLArgs { args: vals };
    let enc = guard(|| args.to_bytes_with_types(&env, &wts));
    let (blob, again) = match enc { Ok(Ok(b)) => { let b2 = guard(|| args.to_bytes_with_types(&env, &wts)); (json!(b), match b2 { Ok(Ok(x)) => bytesj(&x), _ => json!("fail") }) } Ok(Err(e)) => (json!({"err": e.to_string()}), json!("fail")), Err(s) => (json!({"panic": s}), json!("fail")) };
    let norm = IDLArgs { args: args.args.iter().map(normalize).collect() };
    let untyped = if args.args.iter().all(homogeneous) { match guard(|| norm.to_bytes()) { Ok(Ok(b)) => json!({"ok": bytesj(&b)}), Ok(Err(_)) => json!({"err": 1}), Err(s) => json!({"panic": s}) } } else { json!({"skip": 1}) };
    let failed = !blob.is_array();
    let mut r = json!({"idx": idx, "kind": "enc", "env": c["env"], "wts": wids, "vals": c["vals"], "blob": if failed { json!([]) } else { blob.clone() }, "again": again, "untyped": untyped, "rawvals": proj_args(&args)});
    if failed { r["encfail"] = blob; }
    r
}

// ------------------------------------------------------------------ C10
fn out_val(r: Result<candid::Result<IDLArgs>, String>) -> Value { out_args(r) }
/// one (env, types, abstract values) triple through annotate / typed encode / decode typed and untyped
/// the same abstract value with the fields of every record listed in descending id order (an untyped record
/// value is a bag of fields; nothing obliges a caller to sort them)
pub fn reverse_records(v: &IDLValue) -> IDLValue {
    use candid::types::value::{IDLField, VariantValue};
    match v {
        IDLValue::Opt(x) => IDLValue::Opt(Box::new(reverse_records(x))),
        IDLValue::Vec(xs) => IDLValue::Vec(xs.iter().map(reverse_records).collect()),
        IDLValue::Record(fs) => { let mut out: Vec<IDLField> = fs.iter().map(|f| IDLField { id: f.id.clone(), val: reverse_records(&f.val) }).collect(); out.sort_by_key(|f| std::cmp::Reverse(f.id.get_id())); IDLValue::Record(out) }
        IDLValue::Variant(x) => IDLValue::Variant(VariantValue(Box::new(IDLField { id: x.0.id.clone(), val: reverse_records(&x.0.val) }), x.1)),
        o => o.clone(),
    }
}
pub fn val_case(idx: usize, envj: Value, env: &TypeEnv, tids: Vec<String>, types: &[Type], vals_abs: Value, args: &IDLArgs, origin: &str) -> Value {
    // every third case presents its records with the fields in descending order
    let rev = IDLArgs { args: args.args.iter().map(reverse_records).collect() };
    let args = if idx % 3 == 2 { &rev } else { args };
    let ann = out_val(guard(|| args.clone().annotate_types(false, env, types)));
    let enc = guard(|| args.to_bytes_with_types(env, types));
    let (blob, dec_t, dec_u) = match &enc {
        Ok(Ok(b)) => (bytesj(b), decode_all(b, env, types), out_val(guard(|| IDLArgs::from_bytes(b)))),
        Ok(Err(_)) => (json!([]), json!({"skip": 1}), json!({"skip": 1})),
        Err(_) => (json!([]), json!({"skip": 1}), json!({"skip": 1})),
    };
    // the same lists with one value too many / one too few
    let mut more = args.clone(); more.args.push(IDLValue::Null);
    let mut fewer = args.clone(); fewer.args.pop();
    let brief = |r: Result<candid::Result<IDLArgs>, String>| -> Value { match r { Ok(Ok(_)) => json!({"ok": 1}), Ok(Err(_)) => json!({"err": 1}), Err(s) => json!({"panic": s}) } };
    let ann_more = brief(guard(|| more.clone().annotate_types(false, env, types)));
    let ann_fewer = brief(guard(|| fewer.clone().annotate_types(true, env, types)));
    let enc_more = match guard(|| more.to_bytes_with_types(env, types)) { Ok(Ok(_)) => json!({"ok": 1}), Ok(Err(_)) => json!({"err": 1}), Err(s) => json!({"panic": s}) };
    let encres = match &enc { Ok(Ok(_)) => json!({"ok": 1}), Ok(Err(e)) => json!({"err": 1, "msg": crate::util::errmsg(&e)}), Err(s) => json!({"panic": s}) };
    json!({"idx": idx, "kind": "val", "origin": origin, "env": envj, "types": tids, "vals": vals_abs, "ann": ann, "enc": encres, "blob": blob, "dec_t": dec_t, "dec_u": dec_u, "ann_more": ann_more, "ann_fewer": ann_fewer, "enc_more": enc_more})
}
pub fn tlc_val_case(idx: usize, c: &Value) -> Value {
    let envj = c["env"].as_object().unwrap();
    let a = Abs::new(envj);
    let env = a.type_env();
    let tids: Vec<String> = c["wts"].as_array().unwrap().iter().map(|x| x.as_str().unwrap().to_string()).collect();
    let types: Vec<Type> = tids.iter().map(|t| a.ty(t)).collect();
    let vals: Vec<IDLValue> = c["vals"].as_array().unwrap().iter().zip(types.iter()).map(|(v, t)| crate::absval::to_idl(v, &env, t)).collect();
    val_case(idx, c["env"].clone(), &env, tids, &types, c["vals"].clone(), &IDLArgs { args: vals }, "tlc")
}
/// near-miss: mutate the abstract value somewhere
fn mutate_abs(g: &mut crate::gen::G, v: &mut Value) {
    let k = v["k"].as_str().unwrap_or("").to_string();
    // descend with some probability
    let descend = g.rng_range(0, 3) != 0;
    match k.as_str() {
        "opt" if descend => return mutate_abs(g, &mut v["v"]),
        "vec" if descend && !v["vs"].as_array().unwrap().is_empty() => { let n = v["vs"].as_array().unwrap().len(); let i = g.rng_range(0, n); return mutate_abs(g, &mut v["vs"][i]); }
        "rec" if descend && !v["fs"].as_array().unwrap().is_empty() => { let n = v["fs"].as_array().unwrap().len(); let i = g.rng_range(0, n); return mutate_abs(g, &mut v["fs"][i]["v"]); }
        "var" if descend => return mutate_abs(g, &mut v["v"]),
        _ => {}
    }
    let choice = g.rng_range(0, 9);
    *v = match (k.as_str(), choice) {
        ("fix", 0..=3) => { let n = v["bytes"].as_array().unwrap().len(); let m = [1usize, 2, 4, 8][g.rng_range(0, 4)]; if m == n { json!({"k": "text", "cps": [97]}) } else { json!({"k": "fix", "bytes": vec![7u8; m]}) } }
        ("rec", 0..=3) if !v["fs"].as_array().unwrap().is_empty() => { let mut w = v.clone(); let n = w["fs"].as_array().unwrap().len(); let i = g.rng_range(0, n); w["fs"].as_array_mut().unwrap().remove(i); w }
        ("rec", 4..=5) => { let mut w = v.clone(); w["fs"].as_array_mut().unwrap().push(json!({"id": [65535, 65534], "v": {"k": "null"}})); w }
        ("var", 0..=3) => { let mut w = v.clone(); w["id"] = json!([65535, 65533]); w }
        ("text", 0..=3) => json!({"k": "vec", "vs": [{"k": "fix", "bytes": [97]}]}),
        ("vec", 0..=2) => json!({"k": "text", "cps": [97]}),
        ("num", 0..=2) => { let mut w = v.clone(); w["neg"] = json!(!v["neg"].as_bool().unwrap_or(false) && !v["bits"].as_array().unwrap().is_empty()); w }
        ("principal", 0..=3) => json!({"k": "service", "b": v["b"]}),
        ("service", 0..=3) => json!({"k": "principal", "b": v["b"]}),
        ("null", 0..=3) => json!({"k": "bool", "b": 1}),
        (_, 4) => json!({"k": "null"}),
        (_, 5) => json!({"k": "opt", "v": v.clone()}),
        (_, 6) => json!({"k": "vec", "vs": [v.clone()]}),
        (_, 7) => json!({"k": "num", "neg": false, "bits": [1]}),
        _ => json!({"k": "reserved"}),
    };
}
pub fn rand_val_case(idx: usize, g: &mut crate::gen::G, near_miss: bool) -> Value {
    let m = rand_msg(g, 1);
    let mut fl = Flat::new(&m.env);
    let tids: Vec<String> = m.wts.iter().map(|t| fl.ty(t)).collect();
    let mut abs = proj_args(&m.args);
    if near_miss {
        let n = abs.as_array().unwrap().len();
        let i = g.rng_range(0, n);
        mutate_abs(g, &mut abs[i]);
        let vals: Vec<IDLValue> = abs.as_array().unwrap().iter().zip(m.wts.iter()).map(|(v, t)| crate::absval::to_idl(v, &m.env, t)).collect();
        let args = IDLArgs { args: vals };
        // what the harness really built (the builder is total; the referee judges *this* value)
        let built = proj_args(&args);
        return val_case(idx, json!(fl.nodes), &m.env, tids, &m.wts, built, &args, "nearmiss");
    }
    val_case(idx, json!(fl.nodes), &m.env, tids, &m.wts, abs, &m.args, "rand")
}
// ------------------------------------------------------------------ C04
fn sub_verdict(env: &TypeEnv, a: &Type, b: &Type) -> Value {
    match guard(|| { let mut gm = std::collections::HashSet::new(); candid::types::subtype::subtype_with_config(candid::types::subtype::OptReport::Silence, &mut gm, env, a, b).is_ok() }) { Ok(true) => json!(1), Ok(false) => json!(0), Err(_) => json!(2) }
}
/// upgrade chain t0 <: t1 <: ... <: tn with a value of t0: decode directly at tn, and step by step with re-encoding
pub fn chain_case(idx: usize, g: &mut crate::gen::G) -> Value {
    let m = rand_msg(g, 1);
    let env = &m.env;
    let t0 = m.wts[0].clone();
    let args = IDLArgs { args: vec![m.args.args[0].clone()] };
    let bytes0 = match guard(|| args.to_bytes_with_types(env, &[t0.clone()])) { Ok(Ok(b)) => b, _ => m.bytes.clone() };
    let n = g.rng_range(1, 4);
    let mut ts = vec![t0.clone()];
    for _ in 0..n { let last = ts.last().unwrap().clone(); ts.push(g.supertype(env, &last, 3)); }
    let mut fl = Flat::new(env);
    let tids: Vec<String> = ts.iter().map(|t| fl.ty(t)).collect();
    let subs: Vec<Value> = (0..n).map(|i| sub_verdict(env, &ts[i], &ts[i + 1])).collect();
    let sub_direct = sub_verdict(env, &ts[0], &ts[n]);
    let direct = decode_all(&bytes0, env, &[ts[n].clone()]);
    // via: decode at t1, re-encode at t1, decode at t2, ...
    let mut steps = vec![];
    let mut blobs = vec![];
    let mut cur = bytes0.clone();
    for i in 1..=n {
        blobs.push(bytesj(&cur));
        let r = guard(|| IDLArgs::from_bytes_with_types(&cur, env, &[ts[i].clone()]));
        match r {
            Ok(Ok(a)) => { steps.push(json!({"ok": proj_args(&a)})); match guard(|| a.to_bytes_with_types(env, &[ts[i].clone()])) { Ok(Ok(b)) => cur = b, Ok(Err(e)) => { steps.push(json!({"reenc_err": e.to_string()})); break; } Err(s) => { steps.push(json!({"panic": s})); break; } } }
            Ok(Err(e)) => { steps.push(json!({"err": 1, "msg": crate::util::errmsg(&e)})); break; }
            Err(s) => { steps.push(json!({"panic": s})); break; }
        }
    }
    json!({"idx": idx, "kind": "chain", "env": fl.nodes, "ts": tids, "v": proj_value(&m.args.args[0]), "blob": bytesj(&bytes0), "subs": subs, "sub_direct": sub_direct, "direct": direct, "steps": steps, "blobs": blobs})
}

pub fn run(o: &Opts) {
    let cases = read_cases(&o.cases);
    let mut out = Out::new();
    let mut idx = 0usize;
    for c in &cases {
        if idx >= o.start {
            let mode = o.extra.first().map(|s| s.as_str()).unwrap_or("dec");
            if mode == "val" { out.emit(&tlc_val_case(idx, c)); }
            else if c.get("vals").is_some() { out.emit(&tlc_enc_case(idx, c)); } else { out.emit(&tlc_dec_case(idx, c)); }
        }
        idx += 1;
    }
    let mut g = crate::gen::G::new(o.seed);
    let mode = o.extra.first().map(|s| s.as_str()).unwrap_or("dec");
    for i in 0..o.n {
        let v = match mode { "enc" => enc_case(idx, &mut g), "val" => rand_val_case(idx, &mut g, i % 2 == 1), "chain" => chain_case(idx, &mut g), _ => if i % 10 == 9 { template_dec_case(idx, &mut g) } else if i % 10 == 4 { ref_memo_case(idx, &mut g) } else if i % 3 == 2 { mut_dec_case(idx, &mut g) } else { rand_dec_case(idx, &mut g) } };
        if idx >= o.start { out.emit(&v); }
        idx += 1;
    }
    let _ = proj_value;
}
