//! Programs (.did): C14 (checker accepts exactly the well-formed programs, downstream totality),
//! C12 (print / re-check round trip).  Abstract programs (JSON, see spec/WellFormed.tla) are rendered
//! to text by the harness's own printer.
use crate::proj::Flat;
use crate::util::*;
use candid::types::{Type, TypeEnv, TypeInner};
use candid_parser::syntax::{IDLMergedProg, IDLProg};
use rand::prelude::*;
use serde_json::{json, Value};

fn label_txt(l: &Value) -> String {
    match l {
        Value::String(s) => s.clone(),
        o => match o["k"].as_str().unwrap() { "id" => crate::absty::jid(&o["v"]).to_string(), _ => crate::hash::lit(&String::from_utf8(jbytes(&o["b"])).unwrap()) },
    }
}
fn name_txt(s: &str) -> String {
    let plain = !s.is_empty() && s.chars().all(|c| c.is_ascii_alphanumeric() || c == '_') && !s.chars().next().unwrap().is_ascii_digit()
        && !["type", "import", "service", "func", "opt", "vec", "record", "variant", "blob", "principal", "nat", "int", "text", "bool", "null", "reserved", "empty", "oneway", "query", "composite_query", "float32", "float64",
             "nat8", "nat16", "nat32", "nat64", "int8", "int16", "int32", "int64", "true", "false"].contains(&s);
    if plain { s.to_string() } else { crate::hash::lit(s) }
}
fn docs_txt(v: &Value) -> String {
    match v.get("doc").and_then(|d| d.as_array()) { Some(ds) => ds.iter().map(|d| format!("/// {}\n", d.as_str().unwrap())).collect(), None => String::new() }
}
pub fn render_ty(t: &Value) -> String {
    let k = t["k"].as_str().unwrap();
    match k {
        "prim" | "var" => t["n"].as_str().unwrap().to_string(),
        "opt" | "vec" => format!("{k} {}", render_ty(&t["a"])),
        "record" | "variant" => format!("{k} {{ {} }}", t["fs"].as_array().unwrap().iter().map(|f| format!("{}{} : {}", docs_txt(f), label_txt(&f["l"]), render_ty(&f["t"]))).collect::<Vec<_>>().join("; ")),
        "func" => format!("func {}", render_func(t)),
        "service" => format!("service {}", render_serv(t)),
        "class" => format!("({}) -> {}", render_args(&t["args"]), if t["t"]["k"] == "service" { render_serv(&t["t"]) } else { render_ty(&t["t"]) }),
        _ => panic!("kind {k}"),
    }
}
fn render_args(a: &Value) -> String {
    a.as_array().unwrap().iter().map(|x| { let n = x["n"].as_str().unwrap(); if n.is_empty() { render_ty(&x["t"]) } else { format!("{} : {}", name_txt(n), render_ty(&x["t"])) } }).collect::<Vec<_>>().join(", ")
}
fn render_func(t: &Value) -> String {
    format!("({}) -> ({}) {}", render_args(&t["args"]), render_args(&t["rets"]), t["modes"].as_array().unwrap().iter().map(|m| m.as_str().unwrap().to_string()).collect::<Vec<_>>().join(" "))
}
fn render_serv(t: &Value) -> String {
    format!("{{ {} }}", t["ms"].as_array().unwrap().iter().map(|m| { let mt = &m["t"]; let body = if mt["k"] == "func" { render_func(mt) } else { render_ty(mt) }; format!("{}{} : {}", docs_txt(m), name_txt(m["name"].as_str().unwrap()), body) }).collect::<Vec<_>>().join("; "))
}
pub fn render(p: &Value) -> String {
    let mut src = String::new();
    for d in p["defs"].as_array().unwrap() { src.push_str(&format!("{}type {} = {};\n", docs_txt(d), name_txt(d["name"].as_str().unwrap()), render_ty(&d["body"]))); }
    let a = &p["actor"];
    match a["k"].as_str().unwrap() {
        "none" => {}
        "service" => src.push_str(&format!("service : {}\n", render_serv(a))),
        "var" => src.push_str(&format!("service : {}\n", a["n"].as_str().unwrap())),
        "class" => src.push_str(&format!("service : {}\n", render_ty(a))),
        k => panic!("actor {k}"),
    }
    src
}
pub struct Checked { pub env: TypeEnv, pub actor: Option<Type>, pub prog: IDLProg, pub src: String }
pub fn check_src(src: &str) -> Result<Result<Checked, String>, String> {
    guard(|| {
        let prog: IDLProg = src.parse().map_err(|e: candid_parser::Error| format!("parse: {e}"))?;
        let mut env = TypeEnv::new();
        let actor = candid_parser::typing::check_prog(&mut env, &prog).map_err(|e| format!("check: {e}"))?;
        Ok(Checked { env, actor, prog, src: src.to_string() })
    })
}
/// the type graph of a checked program: every definition, the actor, init arguments
pub fn graph(c: &Checked, pfx: &str) -> Value {
    let mut fl = Flat::with_prefix(&c.env, pfx);
    let mut defs = serde_json::Map::new();
    for name in c.env.0.keys() { let id = fl.ty(&TypeInner::Var(name.clone()).into()); defs.insert(name.clone(), json!(id)); }
    let (init, serv): (Vec<Type>, Option<Type>) = match &c.actor { Some(a) => match a.as_ref() { TypeInner::Class(args, s) => (args.clone(), Some(s.clone())), _ => (vec![], Some(a.clone())) }, None => (vec![], None) };
    let sid = serv.map(|s| json!(fl.ty(&s))).unwrap_or(json!("none"));
    let iids: Vec<String> = init.iter().map(|t| fl.ty(t)).collect();
    json!({"nodes": fl.nodes, "defs": defs, "actor": sid, "init": iids})
}
fn downstream(c: &Checked) -> Value {
    let mut out = serde_json::Map::new();
    let env = &c.env;
    let names: Vec<String> = env.0.keys().cloned().collect();
    out.insert("trace".into(), match guard(|| names.iter().all(|n| env.trace_type(&TypeInner::Var(n.clone()).into()).is_ok())) { Ok(true) => json!("ok"), Ok(false) => json!("unresolved"), Err(s) => json!(format!("panic@{s}")) });
    out.insert("subtype".into(), match guard(|| names.iter().all(|n| { let t: Type = TypeInner::Var(n.clone()).into(); let mut g = std::collections::HashSet::new(); candid::types::subtype::subtype_with_config(candid::types::subtype::OptReport::Silence, &mut g, env, &t, &t).is_ok() })) { Ok(true) => json!("ok"), Ok(false) => json!("not_reflexive"), Err(s) => json!(format!("panic@{s}")) });
    out.insert("equal".into(), match guard(|| names.iter().all(|n| { let t: Type = TypeInner::Var(n.clone()).into(); let mut g = std::collections::HashSet::new(); candid::types::subtype::equal(&mut g, env, &t, &t).is_ok() })) { Ok(true) => json!("ok"), Ok(false) => json!("not_reflexive"), Err(s) => json!(format!("panic@{s}")) });
    let merged = IDLMergedProg::new(c.src.parse::<IDLProg>().unwrap());
    let gens = crate::bind::run_generators(env, &c.actor, &merged, false);
    out.insert("bindings".into(), gens);
    Value::Object(out)
}
pub fn wf_case(idx: usize, kind: &str, p: &Value, wf: Option<i64>) -> Value {
    let src = match guard(|| render(p)) { Ok(s) => s, Err(_) => return json!({"idx": idx, "kind": "skip"}) };
    let r = check_src(&src);
    let (verdict, msg, down) = match &r { Ok(Ok(c)) => (1, String::new(), downstream(c)), Ok(Err(e)) => (0, e.chars().take(140).collect(), json!({})), Err(s) => (2, format!("panic@{s}"), json!({})) };
    let mut o = json!({"idx": idx, "kind": kind, "src": src, "impl": verdict, "msg": msg, "down": down});
    if let Some(w) = wf { o["wf"] = json!(w); } else { o["p"] = p.clone(); }
    o
}
/// C12: print the checked program with both printers, re-check, project both graphs
pub fn pp_case(idx: usize, src: &str, origin: &str) -> Value {
    let c = match check_src(src) { Ok(Ok(c)) => c, _ => return json!({"idx": idx, "kind": "skip"}) };
    let g0 = graph(&c, "s");
    let mut prints = vec![];
    let printers: Vec<(&str, Box<dyn Fn() -> String>)> = vec![
        ("types", Box::new(|| candid::pretty::candid::compile(&c.env, &c.actor))),
        ("syntax", Box::new(|| candid_parser::syntax::pretty_print(&IDLMergedProg::new(c.src.parse::<IDLProg>().unwrap())))),
    ];
    for (which, f) in printers.iter() {
        let t1 = guard(|| f());
        let t2 = guard(|| f());
        let entry = match (&t1, &t2) {
            (Ok(a), Ok(b)) => {
                let again = check_src(a);
                match again {
                    Ok(Ok(c2)) => json!({"which": which, "same": (a == b) as u8, "text": a.chars().take(1500).collect::<String>(), "re": {"ok": graph(&c2, "r")}}),
                    Ok(Err(e)) => json!({"which": which, "same": (a == b) as u8, "text": a.chars().take(1500).collect::<String>(), "re": {"err": e.chars().take(200).collect::<String>()}}),
                    Err(s) => json!({"which": which, "same": (a == b) as u8, "text": a.chars().take(1500).collect::<String>(), "re": {"panic": s}}),
                }
            }
            _ => json!({"which": which, "same": 0, "text": "", "re": {"panic": "printer"}}),
        };
        prints.push(entry);
    }
    json!({"idx": idx, "kind": "pp", "origin": origin, "src": src.chars().take(1500).collect::<String>(), "g": g0, "prints": prints})
}

// ------------------------------------------------------------------ random abstract programs
const NAMES: &[&str] = &["A", "B", "C", "t", "list", "record_", "Z9", "a_b", "ab", "class", "return", "Self", "type_", "null_", "Ok", "é", "a b", "nat2", "\"q\"", "x\u{0}y", "0a", "", "*/", "${x}", "`b`", "'s'", "line\nbreak"];
pub const RS_FIELD_NAMES: &[&str] = &["a", "b", "ab", "a_b", "aB", "A_b", "type", "Type", "Match", "fn", "self", "Self", "ref", "Ref", "id", "x1", "camelCase", "snake_case", "é", "a b", "0", "Ok", "Err", "ok", "err", "crate", "r#x"];
const FIELD_NAMES: &[&str] = &["a", "b", "ab", "ba", "id", "type", "fn", "0", "é", "a b", "x\u{0}1", "record", "\\", "\"", "Ok", "Err", "*/", "from", "self",
    // every word the Candid lexer does not read as an identifier, and a few it does
    "true", "false", "null", "opt", "vec", "variant", "service", "func", "query", "oneway", "composite_query", "blob", "principal", "import", "nan", "inf", "float64", "empty", "reserved", "bool", "text", "nat", "int8"];
pub struct PG { pub rng: StdRng, pub ndefs: usize, pub ident_methods: bool, pub valid: bool, pub docs: bool, pub hostile: bool, pub uniq: usize, pub rs_names: bool, pub no_numeric: bool }
const DOCS: &[&str] = &["plain text", "*/ INJ1 /*", "// INJ2", "\" INJ3 \"", "' + INJ4 + '", "`${INJ5}`", "*/", "/*", "\\", "ends with backslash \\", "</script>", "é", "*\\/ INJ6 /*", "*/*/ INJ13"];
const HOSTILE: &[&str] = &["a\"; INJ7; \"", "b'; INJ8; '", "*/ INJ9 /*", "\\\"; INJ10; //", "x\n INJ11", "`${INJ12}`", "'", "\\", "\\'"];
impl PG {
    fn prim(&mut self) -> Value { let n = *["nat", "int", "text", "bool", "null", "reserved", "empty", "principal", "nat8", "int64", "float64", "nat16"].choose(&mut self.rng).unwrap(); json!({"k": "prim", "n": n}) }
    fn defname(&mut self, i: usize) -> String {
        if self.rs_names { return ["a_b", "a", "ab", "A", "aB", "list", "Type", "type_", "self_", "T1", "t1", "Box", "Option", "Vec", "String", "Result", "Nat", "Principal"].choose(&mut self.rng).unwrap().to_string(); }
        if i < NAMES.len() && self.rng.gen_bool(0.5) { NAMES[i].to_string() } else { format!("T{i}") }
    }
    fn doc(&mut self) -> Value { if self.docs && self.rng.gen_bool(0.5) { let n = self.rng.gen_range(1..3); json!((0..n).map(|_| *DOCS.choose(&mut self.rng).unwrap()).collect::<Vec<_>>()) } else { json!([]) } }
    fn label(&mut self) -> Value {
        if self.hostile && self.rng.gen_bool(0.3) { let n = *HOSTILE.choose(&mut self.rng).unwrap(); return json!({"k": "name", "b": bytesj(n.as_bytes())}); }
        if !self.no_numeric && self.rng.gen_bool(0.3) { let v = *[0u32, 1, 2, 97, 98, 1000, 65536, 4294967295, 24860].choose(&mut self.rng).unwrap(); json!({"k": "id", "v": u32j(v)}) }
        else { let n = if self.rs_names { *RS_FIELD_NAMES.choose(&mut self.rng).unwrap() } else { *FIELD_NAMES.choose(&mut self.rng).unwrap() }; json!({"k": "name", "b": bytesj(n.as_bytes())}) }
    }
    fn var(&mut self, names: &[String]) -> Value {
        if !self.valid && self.rng.gen_range(0..40) == 0 { return json!({"k": "var", "n": "Undefined_"}); }
        let n = names.choose(&mut self.rng).unwrap().clone();
        json!({"k": "var", "n": n})
    }
    pub fn ty(&mut self, names: &[String], depth: usize) -> Value {
        let c = if depth == 0 { self.rng.gen_range(0..5) } else { self.rng.gen_range(0..14) };
        match c {
            0..=2 => self.prim(),
            3..=4 => if names.is_empty() { self.prim() } else { self.var(names) },
            5 => json!({"k": "opt", "a": self.ty(names, depth - 1)}),
            6 => json!({"k": "vec", "a": self.ty(names, depth - 1)}),
            7..=9 => { let k = if c == 9 { "variant" } else { "record" }; let n = self.rng.gen_range(0..4); let mut fs = vec![]; for _ in 0..n { let l = self.label(); if self.valid && fs.iter().any(|f: &Value| crate::prog::lab_id(&f["l"]) == crate::prog::lab_id(&l)) { continue; } let d = self.doc(); fs.push(json!({"l": l, "t": self.ty(names, depth - 1), "doc": d})); } json!({"k": k, "fs": fs}) }
            10..=11 => self.func(names, depth - 1),
            _ => self.serv(names, depth - 1),
        }
    }
    fn args(&mut self, names: &[String], depth: usize) -> Value {
        let n = self.rng.gen_range(0..3);
        let mut used: Vec<String> = vec![];
        let mut out = vec![];
        for _ in 0..n {
            let mut nm = if self.rng.gen_bool(0.4) { ["x", "y", "from", "é", "arg0", "type", "query", "null", "vec", "service", "import", "true", "false", "a b", "opt", "principal", "blob", "func", "record", "variant", "oneway", "composite_query", "x\u{0}", "\"", "*/"].choose(&mut self.rng).unwrap().to_string() } else { String::new() };
            if self.valid && used.contains(&nm) { nm = String::new(); }
            if !nm.is_empty() { used.push(nm.clone()); }
            out.push(json!({"n": nm, "t": self.ty(names, depth)}));
        }
        json!(out)
    }
    pub fn func(&mut self, names: &[String], depth: usize) -> Value {
        let modes: Vec<&str> = match self.rng.gen_range(0..8) { 0 => vec!["query"], 1 => vec!["oneway"], 2 => vec!["composite_query"], 3 if !self.valid => vec!["query", "oneway"], _ => vec![] };
        let rets = if modes == vec!["oneway"] && (self.valid || self.rng.gen_bool(0.8)) { json!([]) } else { self.args(names, depth) };
        json!({"k": "func", "args": self.args(names, depth), "rets": rets, "modes": modes})
    }
    pub fn serv(&mut self, names: &[String], depth: usize) -> Value {
        let n = self.rng.gen_range(0..4);
        let pool: &[&str] = if self.ident_methods { &["m", "get", "set_x", "f1", "transfer", "n", "true", "false", "null", "query", "service", "type"] } else { &["m", "get", "a b", "é", "*/", "\"", "class", "", "x\u{0}", "${y}", "f'", "line\nbreak", "true", "false", "null", "query", "oneway", "func", "import"] };
        let mut ms: Vec<Value> = vec![];
        for _ in 0..n {
            let mut name = pool.choose(&mut self.rng).unwrap().to_string();
            if self.hostile && self.rng.gen_bool(0.3) { name = HOSTILE.choose(&mut self.rng).unwrap().to_string(); }
            if self.uniq > 0 { self.uniq += 1; name = if self.ident_methods { format!("{}_{}", name, self.uniq) } else { format!("{} {}", name, self.uniq) }; }
            if self.valid && ms.iter().any(|m| m["name"] == name) { continue; }
            let t = if !self.valid && self.rng.gen_range(0..15) == 0 { self.ty(names, 0) } else { self.func(names, depth) };
            let d = self.doc();
            ms.push(json!({"name": name, "t": t, "doc": d}));
        }
        json!({"k": "service", "ms": ms})
    }
    pub fn prog(&mut self) -> Value {
        let nd = self.rng.gen_range(0..=self.ndefs);
        let mut names: Vec<String> = vec![];
        for i in 0..nd { let n = self.defname(i); if !names.contains(&n) { names.push(n); } }
        let mut defs = vec![];
        for n in names.clone() {
            let mut body = self.ty(&names, 3);
            if self.valid { let mut guard = 0; while body["k"] == "var" && guard < 5 { body = self.ty(&names, 2); guard += 1; } if body["k"] == "var" { body = json!({"k": "prim", "n": "nat"}); } }
            let d = self.doc();
            defs.push(json!({"name": n, "body": body, "doc": d}));
        }
        if !self.valid && !defs.is_empty() && self.rng.gen_range(0..25) == 0 { let d = defs[0].clone(); defs.push(d); }
        // a main service given by name: the definition is a service (its name may be a target-language keyword)
        if self.valid && self.rng.gen_range(0..5) == 0 {
            let nm = ["class", "return", "Svc", "function", "self", "S_1", "var", "new"].choose(&mut self.rng).unwrap().to_string();
            if !names.contains(&nm) {
                let body = self.serv(&names, 2);
                let d = self.doc();
                defs.push(json!({"name": nm, "body": body, "doc": d}));
                let actor = if self.rng.gen_bool(0.3) { let a = self.args(&names, 1); json!({"k": "class", "args": a, "t": {"k": "var", "n": nm}}) } else { json!({"k": "var", "n": nm}) };
                return json!({"defs": defs, "actor": actor});
            }
        }
        let mut actor = match self.rng.gen_range(0..5) {
            0 => json!({"k": "none"}),
            1 | 2 => self.serv(&names, 2),
            3 => { let s = self.serv(&names, 2); let a = self.args(&names, 2); json!({"k": "class", "args": a, "t": s}) }
            _ => { let s = self.serv(&names, 2); if names.is_empty() || self.valid { s } else { self.var(&names) } }
        };
        // names for names: a function type reached only through one or two renaming definitions, used as the type of a
        // method (and a renamed data type used as an argument), in one valid program out of three
        if self.valid && self.rng.gen_range(0..3) == 0 && !names.iter().any(|n| n.starts_with("Fn_")) {
            let f = self.func(&names, 1);
            defs.push(json!({"name": "Fn_1", "body": f, "doc": []}));
            defs.push(json!({"name": "Gn_1", "body": {"k": "var", "n": "Fn_1"}, "doc": []}));
            let hop2 = self.rng.gen_bool(0.4);
            if hop2 { defs.push(json!({"name": "Hn_1", "body": {"k": "var", "n": "Gn_1"}, "doc": []})); }
            let mt = json!({"k": "var", "n": if hop2 { "Hn_1" } else { "Gn_1" }});
            let mname = if self.ident_methods { "via_alias" } else { "via alias" };
            let serv = if actor["k"] == "class" { &mut actor["t"] } else { &mut actor };
            if serv["k"] == "service" && !serv["ms"].as_array().unwrap().iter().any(|m| m["name"] == mname) {
                serv["ms"].as_array_mut().unwrap().push(json!({"name": mname, "t": mt, "doc": []}));
            }
        }
        json!({"defs": defs, "actor": actor})
    }
}
/// C14, import leg: the files of the case are written to a scratch directory and the root is checked by check_file
pub fn import_case(idx: usize, c: &Value) -> Value {
    let dir = std::env::temp_dir().join(format!("cv_imp_{}", std::process::id())).join(idx.to_string());
    let _ = std::fs::remove_dir_all(&dir);
    std::fs::create_dir_all(&dir).unwrap();
    let files = c["files"].as_object().unwrap();
    for (name, f) in files {
        let mut src = String::new();
        for i in f["imports"].as_array().unwrap() {
            src.push_str(&format!("import {}\"{}.did\";\n", if i["svc"].as_bool().unwrap_or(false) { "service " } else { "" }, i["f"].as_str().unwrap()));
        }
        src.push_str(&render(&f["p"]));
        std::fs::write(dir.join(format!("{name}.did")), src).unwrap();
    }
    let root = dir.join(format!("{}.did", c["root"].as_str().unwrap()));
    let r = guard(|| candid_parser::typing::check_file(&root));
    let out = match r {
        Ok(Ok((te, actor, _merged))) => {
            let defs: Vec<String> = te.0.keys().cloned().collect();
            let serv = actor.as_ref().map(|a| match a.as_ref() { TypeInner::Class(_, s) => s.clone(), _ => a.clone() });
            let ms: Vec<String> = match serv { Some(s) => match te.as_service(&s) { Ok(ms) => ms.iter().map(|(n, _)| n.clone()).collect(), Err(_) => vec!["<not a service>".to_string()] }, None => vec![] };
            json!({"impl": 1, "msg": "", "ms": ms, "defs": defs, "actor": actor.is_some()})
        }
        Ok(Err(e)) => json!({"impl": 0, "msg": e.to_string().chars().take(160).collect::<String>(), "ms": [], "defs": []}),
        Err(s) => json!({"impl": 2, "msg": format!("panic@{s}"), "ms": [], "defs": []}),
    };
    let _ = std::fs::remove_dir_all(&dir);
    let mut o = json!({"idx": idx, "kind": "import", "files": c["files"], "root": c["root"]});
    for (k, v) in out.as_object().unwrap() { o[k] = v.clone(); }
    o
}
pub fn lab_id(l: &Value) -> u32 {
    match l { Value::String(s) => s.parse::<u32>().unwrap_or_else(|_| crate::corpus::hash(s)), o => if o["k"] == "id" { crate::absty::jid(&o["v"]) } else { crate::corpus::hash(&String::from_utf8(jbytes(&o["b"])).unwrap()) } }
}
pub fn run(o: &Opts) {
    let cases = read_cases(&o.cases);
    let mut out = Out::new();
    let mode = o.extra.first().map(|s| s.as_str()).unwrap_or("wf");
    let mut idx = 0usize;
    for c in &cases {
        if idx >= o.start {
            match mode {
                "wf" => out.emit(&wf_case(idx, "wf", &c["p"], c["wf"].as_i64())),
                "import" => out.emit(&import_case(idx, c)),
                "pp" => { if c["wf"].as_i64() == Some(1) { let src = render(&c["p"]); out.emit(&pp_case(idx, &src, "tlc")); } else { out.emit(&json!({"idx": idx, "kind": "skip"})); } }
                _ => out.emit(&crate::bind::case(idx, mode, &render(&c["p"]), c["wf"].as_i64() == Some(1), "tlc")),
            }
        }
        idx += 1;
    }
    let mut g = PG { rng: StdRng::seed_from_u64(o.seed), ndefs: 5, ident_methods: false, valid: false, docs: mode == "bind", hostile: mode == "bind", uniq: if mode == "bind" { 1 } else { 0 }, rs_names: mode == "rs", no_numeric: false };
    for i in 0..o.n {
        g.valid = mode != "wf" || i % 2 == 0;
        g.ident_methods = i % 3 == 0;
        g.no_numeric = mode == "rs" && i % 3 != 2;
        let p = g.prog();
        let v = match mode {
            "wf" => wf_case(idx, "wfr", &p, None),
            "pp" => pp_case(idx, &render(&p), "rand"),
            _ => crate::bind::case(idx, mode, &render(&p), true, "rand"),
        };
        if idx >= o.start { out.emit(&v); }
        idx += 1;
    }
}
