#![allow(dead_code)]
mod absty;
mod absval;
mod bind;
mod builder;
mod corpus;
mod fuzz;
mod gen;
mod hash;
mod leb;
mod memo;
mod msg;
mod native;
mod parse;
mod principal;
mod prog;
mod proj;
mod rnd;
mod session;
mod sub;
mod suite;
mod text;
mod util;

#[global_allocator]
static ALLOC: fuzz::Counting = fuzz::Counting;

fn main() {
    util::install_panic_hook();
    let args: Vec<String> = std::env::args().skip(1).collect();
    if args.is_empty() { eprintln!("usage: cv <mode> [--cases f] [--seed n] [--n n] [--start k]"); std::process::exit(2); }
    let o = util::opts(&args[1..]);
    match args[0].as_str() {
        "leb" => leb::run(&o),
        "hash" => hash::run(&o),
        "sub" => sub::run(&o),
        "suite" => suite::run(&o),
        "msg" => msg::run(&o),
        "native" => native::run(&o),
        "fuzz" => fuzz::run(&o),
        "text" => text::run(&o),
        "parse" => parse::run(&o),
        "prog" => prog::run(&o),
        "principal" => principal::run(&o),
        "rand" => rnd::run(&o),
        "session" => session::run(&o),
        "builder" => builder::run(&o),
        m => { eprintln!("usage: unknown mode {m}"); std::process::exit(2); }
    }
}
