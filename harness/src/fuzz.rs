//! C07 (quota laws) and C06 (totality and resource bounds of decoding arbitrary bytes).
use crate::native::{registry, Ops};
use crate::proj::{proj_args, Flat};
use crate::util::*;
use candid::de::{DecoderConfig, IDLDeserialize};
use candid::types::value::IDLArgs;
use candid::types::{Type, TypeEnv};
use rand::prelude::*;
use serde_json::{json, Value};
use std::alloc::{GlobalAlloc, Layout, System};
use std::sync::atomic::{AtomicUsize, Ordering::Relaxed};

// ---- counting allocator: live bytes and the peak since the last reset
pub struct Counting;
static LIVE: AtomicUsize = AtomicUsize::new(0);
static PEAK: AtomicUsize = AtomicUsize::new(0);
unsafe impl GlobalAlloc for Counting {
    unsafe fn alloc(&self, l: Layout) -> *mut u8 {
        let p = System.alloc(l);
        if !p.is_null() { let n = LIVE.fetch_add(l.size(), Relaxed) + l.size(); PEAK.fetch_max(n, Relaxed); }
        p
    }
    unsafe fn dealloc(&self, p: *mut u8, l: Layout) { LIVE.fetch_sub(l.size(), Relaxed); System.dealloc(p, l) }
    unsafe fn realloc(&self, p: *mut u8, l: Layout, new: usize) -> *mut u8 {
        let q = System.realloc(p, l, new);
        if !q.is_null() { if new >= l.size() { let n = LIVE.fetch_add(new - l.size(), Relaxed) + new - l.size(); PEAK.fetch_max(n, Relaxed); } else { LIVE.fetch_sub(l.size() - new, Relaxed); } }
        q
    }
}
pub fn peak_reset() -> usize { let l = LIVE.load(Relaxed); PEAK.store(l, Relaxed); l }
pub fn peak_since(base: usize) -> usize { PEAK.load(Relaxed).saturating_sub(base) }

fn cfg(d: Option<usize>, s: Option<usize>) -> DecoderConfig {
    let mut c = DecoderConfig::new();
    if let Some(d) = d { c.set_decoding_quota(d); }
    if let Some(s) = s { c.set_skipping_quota(s); }
    c
}
fn classify(e: &candid::Error) -> Value {
    let m = format!("{e:?}");
    if m.contains("cost exceeds the limit") { json!({"quota": 1}) } else { json!({"err": 1, "msg": errmsg(e)}) }
}
/// untyped decode under a config: outcome + reported cost
fn untyped_with(b: &[u8], env: &TypeEnv, types: &[Type], c: &DecoderConfig) -> Value {
    let base = peak_reset();
    let r = guard(|| {
        let mut de = IDLDeserialize::new_with_config(b, c)?;
        let mut args = vec![];
        for t in types { args.push(de.get_value_with_type(env, t)?); }
        de.done()?;
        let cost = de.get_config().compute_cost(c);
        Ok::<_, candid::Error>((IDLArgs { args }, cost))
    });
    let peak = peak_since(base);
    match r {
        Ok(Ok((a, cost))) => json!({"ok": proj_args(&a), "cd": cost.decoding_quota.map(|x| x as i64).unwrap_or(-1), "cs": cost.skipping_quota.map(|x| x as i64).unwrap_or(-1), "peak": peak}),
        Ok(Err(e)) => { let mut v = classify(&e); v["peak"] = json!(peak); v }
        Err(s) => json!({"panic": s, "peak": peak}),
    }
}
const BIG: usize = 1 << 40;
fn grid(c: i64) -> Vec<usize> { let c = c.max(0) as usize; let mut v = vec![0, c.saturating_sub(1), c, c + 1, 2 * c + 7]; v.dedup(); v }

/// C07 untyped: a valid message decoded at related expected types, unmetered, measured, and under the quota grid
pub fn quota_case(idx: usize, g: &mut crate::gen::G) -> Value {
    let m = crate::msg::rand_msg(g, 1);
    let nargs = m.wts.len();
    let ne = match g.rng_range(0, 6) { 0 => nargs.saturating_sub(1), _ => nargs };
    let ets: Vec<Type> = (0..ne).map(|j| if g.rng_range(0, 3) == 0 { m.wts[j].clone() } else { g.supertype(&m.env, &m.wts[j], 2) }).collect();
    let mut fl = Flat::new(&m.env);
    let tids: Vec<String> = ets.iter().map(|t| fl.ty(t)).collect();
    let base = untyped_with(&m.bytes, &m.env, &ets, &cfg(None, None));
    let big = untyped_with(&m.bytes, &m.env, &ets, &cfg(Some(BIG), Some(BIG)));
    let mut runs = vec![];
    if big.get("ok").is_some() {
        let (cd, cs) = (big["cd"].as_i64().unwrap(), big["cs"].as_i64().unwrap());
        for d in grid(cd) { for s in grid(cs) {
            let mut r = untyped_with(&m.bytes, &m.env, &ets, &cfg(Some(d), Some(s)));
            r["d"] = json!(d); r["s"] = json!(s);
            runs.push(r);
        } }
        // one quota only
        for d in grid(cd) { let mut r = untyped_with(&m.bytes, &m.env, &ets, &cfg(Some(d), None)); r["d"] = json!(d); r["s"] = json!(-1); runs.push(r); }
        for sq in grid(cs) { let mut r = untyped_with(&m.bytes, &m.env, &ets, &cfg(None, Some(sq))); r["d"] = json!(-1); r["s"] = json!(sq); runs.push(r); }
    }
    json!({"idx": idx, "kind": "quota", "api": "untyped", "env": fl.nodes, "types": tids, "blob": bytesj(&m.bytes), "base": base, "big": big, "runs": runs})
}
/// C07 native: a corpus value followed by surplus arguments; decoded at its own type
pub fn quota_native_case(idx: usize, reg: &[Box<dyn Ops>], g: &mut StdRng) -> Value {
    let e = &reg[g.gen_range(0..reg.len())];
    let nextra = *[0usize, 0, 1, 2].choose(g).unwrap();
    let mut b = candid::ser::IDLBuilder::new();
    let mut b2 = candid::ser::IDLBuilder::new();
    let mut d = crate::corpus::Decl::new();
    let t = e.decl(&mut d);
    let mut wts = vec![t.clone()];
    if e.arg(&mut b, &mut b2, g).is_err() { return json!({"idx": idx, "kind": "skip"}); }
    for _ in 0..nextra { let x = &reg[g.gen_range(0..reg.len())]; wts.push(x.decl(&mut d)); if x.arg(&mut b, &mut b2, g).is_err() { return json!({"idx": idx, "kind": "skip"}); } }
    let bytes = match guard(|| b.serialize_to_vec()) { Ok(Ok(x)) => x, _ => return json!({"idx": idx, "kind": "skip"}) };
    let base = e.decode_with(&bytes, None, None);
    let big = e.decode_with(&bytes, Some(BIG), Some(BIG));
    let mut runs = vec![];
    if big.get("ok").is_some() {
        let (cd, cs) = (big["cd"].as_i64().unwrap(), big["cs"].as_i64().unwrap());
        for dq in grid(cd) { for sq in grid(cs) { let mut r = e.decode_with(&bytes, Some(dq), Some(sq)); r["d"] = json!(dq); r["s"] = json!(sq); runs.push(r); } }
        // one quota only
        for dq in grid(cd) { let mut r = e.decode_with(&bytes, Some(dq), None); r["d"] = json!(dq); r["s"] = json!(-1); runs.push(r); }
        for sq in grid(cs) { let mut r = e.decode_with(&bytes, None, Some(sq)); r["d"] = json!(-1); r["s"] = json!(sq); runs.push(r); }
    }
    json!({"idx": idx, "kind": "quota", "api": "native", "rust": e.name(), "env": d.nodes, "types": [t], "wts": wts, "nextra": nextra, "blob": bytesj(&bytes), "base": base, "big": big, "runs": runs})
}

/// C07 native: a message of a *related* wire type (upgrade steps, surplus fields, options that fail) decoded natively
pub fn quota_native_related_case(idx: usize, reg: &[Box<dyn Ops>], g: &mut crate::gen::G) -> Value {
    use crate::absty::Abs;
    let e = &reg[g.rng_range(0, reg.len())];
    let mut d = crate::corpus::Decl::new();
    let t = e.decl(&mut d);
    let nodes = d.nodes.clone();
    let abs = Abs::new(&nodes);
    let env = abs.type_env();
    let decl_ty = abs.ty(&t);
    g.ndefs = 0;
    // related by upgrade/breaking steps, or a layout twin (options whose payload type does not fit are skipped after back-tracking)
    let wt = if g.rng_range(0, 3) == 0 { crate::native::twin(&env, &decl_ty, 3) } else { g.related(&env, &decl_ty, 3) };
    let v = match g.val(&env, &wt, 4) { Some(v) => v, None => return json!({"idx": idx, "kind": "skip"}) };
    let args = IDLArgs { args: vec![v] };
    let bytes = match guard(|| args.to_bytes_with_types(&env, &[wt.clone()])) { Ok(Ok(b)) => b, _ => return json!({"idx": idx, "kind": "skip"}) };
    let base = e.decode_with(&bytes, None, None);
    let big = e.decode_with(&bytes, Some(BIG), Some(BIG));
    let mut runs = vec![];
    if big.get("ok").is_some() {
        let (cd, cs) = (big["cd"].as_i64().unwrap(), big["cs"].as_i64().unwrap());
        for dq in grid(cd) { for sq in grid(cs) { let mut r = e.decode_with(&bytes, Some(dq), Some(sq)); r["d"] = json!(dq); r["s"] = json!(sq); runs.push(r); } }
        // one quota only
        for dq in grid(cd) { let mut r = e.decode_with(&bytes, Some(dq), None); r["d"] = json!(dq); r["s"] = json!(-1); runs.push(r); }
        for sq in grid(cs) { let mut r = e.decode_with(&bytes, None, Some(sq)); r["d"] = json!(-1); r["s"] = json!(sq); runs.push(r); }
    }
    json!({"idx": idx, "kind": "quota", "api": "native", "rust": e.name(), "env": nodes, "types": [t], "nextra": 0, "blob": bytesj(&bytes), "base": base, "big": big, "runs": runs})
}

// ------------------------------------------------------------------ C06
fn hostile(g: &mut crate::gen::G) -> Vec<u8> {
    // headers and values with absurd counts, deep nesting, zero-sized element bombs
    let huge: &[&[u8]] = &[b"\xff\xff\xff\xff\x0f", b"\xff\xff\xff\xff\xff\xff\xff\xff\x7f", b"\x80\x80\x80\x80\x80\x80\x80\x80\x80\x01", b"\xff\xff\xff\x7f", b"\x80\x80\x01", b"\xe8\x07", b"\x80\x80\x80\x08", b"\xff\xff\xff\xff\xff\x1f"];
    let h = huge[g.rng_range(0, huge.len())];
    let mut b = b"DIDL".to_vec();
    match g.rng_range(0, 17) {
        // length prefixes of sized data that the input does not contain: blob, text, vec nat64, principal, blob as surplus argument / field
        12 => { b.extend([1, 0x6d, 0x7b, 1, 0]); b.extend(h); b.extend([1, 2, 3]); }
        13 => { b.extend([0, 1, 0x71]); b.extend(h); b.extend(b"ab"); }
        14 => { b.extend([1, 0x6d, 0x78, 1, 0]); b.extend(h); b.extend([0; 16]); }
        15 => { b.extend([0, 1, 0x68, 1]); b.extend(h); b.push(4); }
        16 => { b.extend([2, 0x6d, 0x7b, 0x6c, 2, 0, 0x7d, 1, 0, 1, 1, 7]); b.extend(h); b.extend([9, 9]); }
        0 => { b.extend(h); }                                                         // table length
        1 => { b.extend([1, 0x6c]); b.extend(h); }                                    // field count
        2 => { b.extend([1, 0x6a]); b.extend(h); }                                    // func args
        3 => { b.extend([1, 0x69]); b.extend(h); }                                    // methods
        4 => { b.extend([1, 0x69, 1]); b.extend(h); }                                 // method name length
        5 => { b.push(0); b.extend(h); }                                              // argument count
        6 => { b.extend([1, 0x67]); b.extend(h); }                                    // future type blob
        7 => { let zero = [0x7fu8, 0x70, 0][g.rng_range(0, 3)]; if zero == 0 { b.extend([2, 0x6d, 1, 0x6c, 0, 1, 0]); } else { b.extend([1, 0x6d, zero, 1, 0]); } b.extend(h); }   // vec null / reserved / record {} bomb
        8 => { let n = [10usize, 200, 2000, 20000][g.rng_range(0, 4)]; b.extend([1, 0x6e, 0, 1, 0]); b.extend(std::iter::repeat(1u8).take(n)); if g.rng_range(0, 2) == 0 { b.push(0); } }   // mu X. opt X, deep
        9 => { let n = [10usize, 300, 5000][g.rng_range(0, 3)]; b.extend([1, 0x6d, 0, 1, 0]); b.extend(std::iter::repeat(1u8).take(n)); b.push(0); }                                   // mu X. vec X, deep
        10 => { b.extend([2, 0x6d, 1, 0x6d, 0x7f, 1, 0]); b.extend(b"\x80\x80\x01"); for _ in 0..200 { b.extend(h); } }                                                          // vec vec null
        _ => { b.extend([0, 1, 0x7d]); let n = [9usize, 19, 20, 40, 400][g.rng_range(0, 5)]; b.extend(std::iter::repeat(0xffu8).take(n)); b.push(0x7f & g.rng.gen::<u8>()); }        // long LEB
    }
    b
}
pub fn fuzz_case(idx: usize, c: Option<&Value>, reg: &[Box<dyn Ops>], g: &mut crate::gen::G) -> Value {
    let (bytes, origin): (Vec<u8>, &str) = match c {
        Some(c) => (jbytes(&c["b"]), "tlc"),
        None => match g.rng_range(0, 4) {
            0 => (hostile(g), "hostile"),
            1 => { let m = crate::msg::rand_msg(g, 0); let mut b = m.bytes.clone(); crate::msg::mutate(g, &mut b); (b, "mutant") }
            2 => { let e = &reg[g.rng_range(0, reg.len())]; match e.sample(&mut g.rng) { Ok((_, mut b)) => { crate::msg::mutate(g, &mut b); (b, "native-mutant") } Err(_) => (hostile(g), "hostile") } }
            _ => { let m = crate::msg::rand_msg(g, 0); (m.bytes, "valid") }
        },
    };
    // hostile length prefixes of sized data (cases 12-16 of hostile()) are recognised by their bytes, whatever produced them
    let sized = bytes.len() > 6 && bytes.starts_with(b"DIDL") && { let b = &bytes[4..]; b.starts_with(&[1, 0x6d, 0x7b, 1, 0]) || b.starts_with(&[0, 1, 0x71]) || b.starts_with(&[1, 0x6d, 0x78, 1, 0]) || b.starts_with(&[0, 1, 0x68, 1]) || b.starts_with(&[2, 0x6d, 0x7b, 0x6c, 2, 0, 0x7d, 1, 0, 1, 1]) };
    let origin = if sized && origin != "tlc" { "hostile-length" } else { origin };
    if std::env::var("CV_DEBUG").is_ok() { eprintln!("case {idx} {origin} {}", bytes.iter().map(|b| format!("{b:02x}")).collect::<String>()); }
    // every choice about *how* an input is decoded derives from the input itself, so that another build sees the same cases
    let hseed = bytes.iter().fold(0xcbf29ce484222325u64, |h, b| (h ^ *b as u64).wrapping_mul(0x100000001b3));
    let g = &mut crate::gen::G::new(hseed);
    g.ndefs = 0;
    let env = TypeEnv::new();
    let ets: Vec<Type> = match g.rng_range(0, 4) { 0 => vec![], 1 => vec![g.typ(2)], 2 => vec![g.typ(1), g.typ(2)], _ => vec![candid::types::TypeInner::Reserved.into()] };
    let mut fl = Flat::new(&env);
    let tids: Vec<String> = ets.iter().map(|t| fl.ty(t)).collect();
    // unmetered decoding of a length bomb is unbounded by design (the documentation asks for a quota on untrusted input):
    // the unmetered entry points are exercised only on inputs that the conformance suite's quota (2*10^7) does not reject
    let pre = untyped_with(&bytes, &env, &ets, &cfg(Some(20_000_000), None));
    let pre_any = untyped_with(&bytes, &env, &[], &cfg(Some(20_000_000), None));
    // a length prefix of *sized* data beyond the end of the input is not a bomb: a decoder finds the bytes missing at once, quota or not
    let bomb = !sized && (pre.get("quota").is_some() || pre_any.get("quota").is_some());
    let quotas: [(Option<usize>, Option<usize>); 5] = [(if bomb { Some(20_000_000) } else { None }, None), (Some(0), None), (Some(100), Some(1000)), (Some(10_000), Some(0)), (Some(2_000_000), Some(10_000))];
    let mut runs = vec![];
    for (d, s) in quotas {
        let mut c = cfg(d, s);
        if g.rng_range(0, 2) == 0 { c.set_full_error_message(true); }
        let mut r = untyped_with(&bytes, &env, &ets, &c);
        if let Some(o) = r.as_object_mut() { if o.contains_key("ok") { o.insert("ok".into(), json!(1)); } o.remove("msg"); }
        r["d"] = json!(d.map(|x| x as i64).unwrap_or(-1)); r["s"] = json!(s.map(|x| x as i64).unwrap_or(-1));
        runs.push(r);
    }
    // no expected types at all
    let base = peak_reset();
    let any = if bomb { json!({"skip": 1}) } else { match guard(|| IDLArgs::from_bytes(&bytes)) { Ok(Ok(_)) => json!({"ok": 1}), Ok(Err(_)) => json!({"err": 1}), Err(s) => json!({"panic": s}) } };
    let any_peak = peak_since(base);
    // native decoders
    let mut nat = vec![];
    for _ in 0..3 {
        let e = &reg[g.rng_range(0, reg.len())];
        let (d, s) = quotas[g.rng_range(0, quotas.len())];
        let d = if bomb && d.is_none() { Some(20_000_000) } else { d };
        let mut r = e.decode_with(&bytes, d, s);
        if let Some(o) = r.as_object_mut() { if o.contains_key("ok") { o.insert("ok".into(), json!(1)); } o.remove("msg"); }
        r["rust"] = json!(e.name()); r["d"] = json!(d.map(|x| x as i64).unwrap_or(-1)); r["s"] = json!(s.map(|x| x as i64).unwrap_or(-1));
        nat.push(r);
    }
    // totality on a small stack: the depth guard must turn deep nesting into an error before the stack runs out
    let small = {
        let b2 = bytes.clone();
        let picks: Vec<usize> = (0..2).map(|_| g.rng_range(0, reg.len())).collect();
        let h = std::thread::Builder::new().stack_size(192 << 10).spawn(move || {
            install_panic_hook();
            let reg = registry();
            let mut out = vec![];
            if !bomb { out.push(match guard(|| IDLArgs::from_bytes(&b2)) { Ok(Ok(_)) => json!({"ok": 1}), Ok(Err(_)) => json!({"err": 1}), Err(s) => json!({"panic": s}) }); }
            for p in picks { let mut r = reg[p].decode_with(&b2, Some(1_000_000), None); if let Some(o) = r.as_object_mut() { if o.contains_key("ok") { o.insert("ok".into(), json!(1)); } o.remove("msg"); o.remove("peak"); } out.push(r); }
            out
        }).unwrap();
        match h.join() { Ok(v) => json!(v), Err(_) => json!([{"panic": "thread"}]) }
    };
    // the result itself (C02 exactness) is refereed on the unmetered run
    let exact = if bomb { json!({"skip": 1}) } else { crate::msg::decode_all(&bytes, &env, &ets) };
    json!({"idx": idx, "kind": "fuzz", "bomb": bomb, "origin": origin, "len": bytes.len(), "env": fl.nodes, "types": tids, "blob": bytesj(&bytes), "real": exact.clone(), "step": exact, "runs": runs, "any": any, "any_peak": any_peak, "native": nat, "small": small})
}

pub fn run(o: &Opts) {
    let reg = registry();
    let cases = read_cases(&o.cases);
    let mut out = Out::new();
    let mut g = crate::gen::G::new(o.seed);
    let mut rng = StdRng::seed_from_u64(o.seed ^ 0x5eed);
    let mode = o.extra.first().map(|s| s.as_str()).unwrap_or("quota");
    // watchdog: a case that makes no progress for 20 s is a hang (normal cases take well under a millisecond)
    let progress = std::sync::Arc::new(AtomicUsize::new(0));
    { let p = progress.clone(); std::thread::spawn(move || { let mut last = usize::MAX; let mut still = 0; loop { std::thread::sleep(std::time::Duration::from_secs(2)); let now = p.load(Relaxed); if now == last { still += 1; if still >= 10 { eprintln!("watchdog: no progress for 20s at case {now}"); std::process::abort(); } } else { still = 0; last = now; } } }); }
    let mut idx = 0usize;
    for c in &cases {
        progress.store(idx + 1, Relaxed);
        let v = fuzz_case(idx, Some(c), &reg, &mut g);
        if idx >= o.start { out.emit(&v); }
        idx += 1;
    }
    for i in 0..o.n {
        progress.store(idx + 1, Relaxed);
        let v = match mode { "fuzz" => fuzz_case(idx, None, &reg, &mut g), _ => match i % 4 { 2 => quota_native_case(idx, &reg, &mut rng), 3 => quota_native_related_case(idx, &reg, &mut g), _ => quota_case(idx, &mut g) } };
        if idx >= o.start { out.emit(&v); }
        idx += 1;
    }
}
