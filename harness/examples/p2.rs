fn main() {
    for s in ["\\é", "(\"\\é\")", "/*\\é*/ (1)", "type t = \\é;", "(\\é)", "service : { \"\\é\" : () -> () }", "// \\é\n(1)"] {
        eprintln!("trying {:?}", s);
        let r = candid_parser::parse_idl_args(s);
        eprintln!("  -> {:?}", r.is_ok());
    }
}
