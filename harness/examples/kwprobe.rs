use candid::types::value::{IDLArgs, IDLField, IDLValue, VariantValue};
use candid::types::Label;
fn main() {
    for n in ["true", "false", "null", "nan", "inf"] {
        let v = IDLValue::Record(vec![IDLField { id: Label::Named(n.to_string()), val: IDLValue::Variant(VariantValue(Box::new(IDLField { id: Label::Named(n.to_string()), val: IDLValue::Null }), 0)) }]);
        let a = IDLArgs { args: vec![v] };
        let s = format!("{a}"); let d = format!("{a:?}");
        println!("{n}: {s:?} -> {:?} | dbg {d:?} -> {:?}", candid_parser::parse_idl_args(&s).map(|x| x == a).map_err(|e| e.to_string().chars().take(60).collect::<String>()), candid_parser::parse_idl_args(&d).map(|x| x == a).map_err(|e| e.to_string().chars().take(60).collect::<String>()));
    }
}
