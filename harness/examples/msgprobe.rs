use candid::Decode;
use std::collections::BTreeMap;
fn main() {
    let b = hex("4449444c026d016c03007b0178637f010001997e4c52f59f91c5a4");
    let r = Decode!(&b, BTreeMap<u8, u64>);
    println!("MAP: {:?}\n---\n{}", r.as_ref().err(), r.as_ref().err().unwrap());
    let b = hex("4449444c026c020070e807016e72010000");
    let r = Decode!(&b, (candid::Reserved,));
    println!("TUPLE: {}", r.err().unwrap());
    let b = hex("4449444c016d70010000");
    let r = Decode!(&b, serde_bytes::ByteBuf);
    println!("BYTEBUF: {}", r.err().unwrap());
}
fn hex(s: &str) -> Vec<u8> { (0..s.len()).step_by(2).map(|i| u8::from_str_radix(&s[i..i + 2], 16).unwrap()).collect() }
