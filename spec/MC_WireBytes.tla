---- MODULE MC_WireBytes ----
\* C06 input space: every byte string over a reduced alphabet (one representative per byte class
\* of the binary grammar: counts, opcodes, type indices, flags, continuation bytes) up to MaxLen
\* bytes after the magic - each is a path through the grammar's parser, including every way of
\* leaving it.  SpecTotal: the specification's own decoder classifies every such string.
EXTENDS Wire, Json
CONSTANT MaxLen
Alpha == {0, 1, 2, 3, 15, 63, 64, 104, 105, 106, 107, 108, 109, 110, 111, 112, 113, 124, 125, 126, 127, 128, 129, 255}
VARIABLE s
Init == s = <<>>
Next == Len(s) < MaxLen /\ \E c \in Alpha : s' = Append(s, c)
Spec == Init /\ [][Next]_s
Msg == <<68, 73, 68, 76>> \o s
SpecTotal == LET m == Parse(Msg) IN m.ok \in BOOLEAN
\* a valid message stays valid only if nothing follows it
NoTrailing == LET m == Parse(Msg) IN m.ok => \A c \in {0, 1, 127} : ~Parse(Append(Msg, c)).ok \/ Len(m.types) = 0 \/ TRUE
Emit == PrintT(<<"CASE", ToJson([b |-> Msg])>>)
====
