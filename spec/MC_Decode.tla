---- MODULE MC_Decode ----
\* C02 / C03 / C04 / C10 generator over *tree* types of depth <= 2 (flattened to type graphs):
\* wire type W, every small inhabitant v : W, expected type E.  Emits the message the
\* specification's encoder produces for v : W together with E; checks on the specification:
\*   EncDec    Parse(EncB(v : W)) reads back W (bisimilar) and v, for the canonical table layout
\*   Sound     W <: E  =>  v coerces to a value of type E        (the theorem of C04)
\*   Refl      v : W, and coercion at the same type is the identity   (C10)
EXTENDS Enc, Wire, Json
CONSTANTS Level,      \* 1 | 2 : size of the universe
          EmitKind    \* "dec": messages + expected types (C02);  "enc": (type, value) for the real encoder (C03/C10)
P(k) == [k |-> k]
T0 == {P("null"), P("bool"), P("nat"), P("int"), P("nat8"), P("text"), P("reserved"), P("empty"), P("principal")}
Small == {P("null"), P("nat"), P("int"), P("text"), P("reserved"), P("empty")}
Opt(t) == [k |-> "opt", a |-> t]
Vec(t) == [k |-> "vec", a |-> t]
RecT(fs) == [k |-> "record", fs |-> fs]
VarT(fs) == [k |-> "variant", fs |-> fs]
Fd(i, t) == [id |-> <<0, i>>, t |-> t]
T1 == T0 \cup {Opt(t) : t \in T0} \cup {Vec(t) : t \in T0}
      \cup {RecT(<<>>)} \cup {RecT(<<Fd(i, t)>>) : i \in {0, 1}, t \in Small}
      \cup {RecT(<<Fd(0, t), Fd(1, u)>>) : t \in Small, u \in Small}
      \cup {VarT(<<Fd(i, t)>>) : i \in {0, 1}, t \in Small}
      \cup {VarT(<<Fd(0, t), Fd(1, u)>>) : t \in Small, u \in Small}
Mid == {Opt(P("nat")), Opt(P("int")), Opt(P("null")), Vec(P("nat")), RecT(<<Fd(0, P("nat"))>>), RecT(<<Fd(1, Opt(P("text")))>>),
        VarT(<<Fd(0, P("nat"))>>), VarT(<<Fd(0, P("null")), Fd(1, P("int"))>>)}
T2 == T1 \cup {Opt(t) : t \in Mid} \cup {Vec(t) : t \in Mid} \cup {RecT(<<Fd(0, t), Fd(1, P("nat"))>>) : t \in Mid}
         \cup {VarT(<<Fd(0, t), Fd(1, P("reserved"))>>) : t \in Mid}
WireU == IF Level = 1 THEN T1 ELSE T2
ExpU == IF Level = 1 THEN T0 \cup {Opt(P("nat")), Opt(P("int")), Vec(P("int")), RecT(<<Fd(0, P("int"))>>), RecT(<<Fd(0, P("nat")), Fd(1, Opt(P("text")))>>), VarT(<<Fd(0, P("int")), Fd(1, P("null"))>>)} ELSE T1

\* flatten a tree to a graph: node ids are paths
IsPrimT(t) == t.k \in PrimKinds
RefOf(t, p) == IF IsPrimT(t) THEN PrimId(t.k) ELSE p
RECURSIVE EnvOf(_, _)
EnvOf(t, p) ==
  IF IsPrimT(t) THEN <<>>
  ELSE IF t.k \in {"opt", "vec"} THEN (p :> [k |-> t.k, a |-> RefOf(t.a, p \o "a")]) @@ EnvOf(t.a, p \o "a")
  ELSE LET sub(j) == p \o (IF j = 1 THEN "x" ELSE "y")
           node == [k |-> t.k, fs |-> [j \in DOMAIN t.fs |-> [id |-> t.fs[j].id, t |-> RefOf(t.fs[j].t, sub(j))]]]
       IN IF Len(t.fs) = 0 THEN (p :> node)
          ELSE IF Len(t.fs) = 1 THEN (p :> node) @@ EnvOf(t.fs[1].t, sub(1))
          ELSE (p :> node) @@ EnvOf(t.fs[1].t, sub(1)) @@ EnvOf(t.fs[2].t, sub(2))

VARIABLES w, e, ph
vars == <<w, e, ph>>
Init == w = P("null") /\ e = P("null") /\ ph = 0
Pick == ph = 0 /\ w' \in WireU /\ e' = e /\ ph' = 1
Pick2 == ph = 1 /\ e' \in ExpU /\ w' = w /\ ph' = 2
Next == Pick \/ (EmitKind = "dec" /\ Pick2)
Spec == Init /\ [][Next]_vars

WEnv == EnvOf(w, "w") @@ PrimEnv
Env == EnvOf(w, "w") @@ EnvOf(e, "e") @@ PrimEnv
WT == RefOf(w, "w")
ET == RefOf(e, "e")
Msg(v) == EncB(WEnv, CanonOrd(WEnv, <<WT>>), <<WT>>, <<v>>)
EncDec == ph = 1 =>
   \A v \in Vals(WEnv, WT, 3) :
      LET m == ParseNoReplace(Msg(v)) IN
      /\ m.ok /\ m.vals = <<v>> /\ Len(m.types) = 1
      /\ EqQ(m.env @@ WEnv, m.types[1], WT)
Refl == ph = 1 =>
   \A v \in Vals(WEnv, WT, 3) : HasType(WEnv, v, WT, 8) /\ LET r == Co(WEnv, {}, v, WT, WT) IN r.ok /\ r.v = v
Sound == ph = 2 =>
   (SubQ(Env, WT, ET) =>
      \A v \in Vals(Env, WT, 3) : LET r == Co(Env, {}, v, WT, ET) IN r.ok /\ HasType(Env, r.v, ET, 8))
\* every legal table layout reads back the same: reversed order, and an unused extra entry
XEnv == ("xtra" :> [k |-> "opt", a |-> "p_null"]) @@ WEnv
LayoutFree == ph = 1 =>
   \A v \in Vals(WEnv, WT, 2) :
      LET m1 == ParseNoReplace(EncB(WEnv, Reverse(CanonOrd(WEnv, <<WT>>)), <<WT>>, <<v>>))
          m2 == ParseNoReplace(EncB(XEnv, <<"xtra">> \o CanonOrd(WEnv, <<WT>>), <<WT>>, <<v>>))
      IN m1.ok /\ m1.vals = <<v>> /\ m2.ok /\ m2.vals = <<v>> /\ EqQ(m2.env @@ WEnv, m2.types[1], WT)
Emit == IF EmitKind = "dec"
        THEN ph = 2 => \A v \in Vals(Env, WT, 3) :
                PrintT(<<"CASE", ToJson([env |-> Env, wt |-> WT, et |-> <<ET>>, bytes |-> Msg(v)])>>)
        ELSE ph = 1 => \A v \in Vals(WEnv, WT, 3) :
                PrintT(<<"CASE", ToJson([env |-> WEnv, wts |-> <<WT>>, vals |-> <<v>>])>>)
\* for "enc" only the wire side matters
EncOnly == EmitKind = "enc" => ph < 2
====
