---- MODULE WellFormed ----
\* Well-formedness of Candid programs (spec/Candid.md, "Types"/"Services"): declarative predicate
\* on abstract programs  [defs |-> <<[name, body]...>>, actor |-> type | [k |-> "none"]].
\* Type trees: [k |-> "prim", n] | [k |-> "var", n] | [k |-> "opt"/"vec", a] | [k |-> "record"/"variant", fs |-> <<[l, t]>>]
\*   | [k |-> "func", args |-> <<[n, t]>>, rets |-> <<[n, t]>>, modes] | [k |-> "service", ms |-> <<[name, t]>>] | [k |-> "class", args, t]
EXTENDS Naturals, Sequences, FiniteSets, TLC
CONSTANT LabId(_)      \* label string -> numeric id (the hash for names, the number for numerals)
DefNames(p) == {p.defs[i].name : i \in DOMAIN p.defs}
NoDup(p) == \A i, j \in DOMAIN p.defs : p.defs[i].name = p.defs[j].name => i = j
BodyOf(p, n) == p.defs[CHOOSE i \in DOMAIN p.defs : p.defs[i].name = n].body
RECURSIVE VarsIn(_)
VarsIn(t) ==
  CASE t.k = "prim" -> {}
    [] t.k = "var" -> {t.n}
    [] t.k \in {"opt", "vec"} -> VarsIn(t.a)
    [] t.k \in {"record", "variant"} -> UNION {VarsIn(t.fs[i].t) : i \in DOMAIN t.fs}
    [] t.k = "func" -> UNION ({VarsIn(t.args[i].t) : i \in DOMAIN t.args} \cup {VarsIn(t.rets[i].t) : i \in DOMAIN t.rets})
    [] t.k = "service" -> UNION {VarsIn(t.ms[i].t) : i \in DOMAIN t.ms}
    [] t.k = "class" -> UNION ({VarsIn(t.args[i].t) : i \in DOMAIN t.args} \cup {VarsIn(t.t)})
    [] OTHER -> {}
AllVars(p) == UNION ({VarsIn(p.defs[i].body) : i \in DOMAIN p.defs} \cup {VarsIn(p.actor)})
Closed(p) == AllVars(p) \subseteq DefNames(p)
\* follow names; "cycle" when a definition is equal to itself through names only (vacuous)
RECURSIVE Chase(_, _, _)
Chase(p, t, seen) == IF t.k # "var" THEN t ELSE IF t.n \in seen THEN [k |-> "cycle"] ELSE Chase(p, BodyOf(p, t.n), seen \cup {t.n})
NoVacuous(p) == \A i \in DOMAIN p.defs : Chase(p, p.defs[i].body, {p.defs[i].name}).k # "cycle"
RECURSIVE SubTerms(_)
SubTerms(t) ==
  {t} \cup
  CASE t.k \in {"opt", "vec"} -> SubTerms(t.a)
    [] t.k \in {"record", "variant"} -> UNION {SubTerms(t.fs[i].t) : i \in DOMAIN t.fs}
    [] t.k = "func" -> UNION ({SubTerms(t.args[i].t) : i \in DOMAIN t.args} \cup {SubTerms(t.rets[i].t) : i \in DOMAIN t.rets})
    [] t.k = "service" -> UNION {SubTerms(t.ms[i].t) : i \in DOMAIN t.ms}
    [] t.k = "class" -> UNION ({SubTerms(t.args[i].t) : i \in DOMAIN t.args} \cup {SubTerms(t.t)})
    [] OTHER -> {}
AllTerms(p) == UNION ({SubTerms(p.defs[i].body) : i \in DOMAIN p.defs} \cup {SubTerms(p.actor)})
NamedArgs(s) == {i \in DOMAIN s : s[i].n # ""}
LocalOK(p, t) ==
  CASE t.k \in {"record", "variant"} -> \A i, j \in DOMAIN t.fs : LabId(t.fs[i].l) = LabId(t.fs[j].l) => i = j
    [] t.k = "func" -> /\ Len(t.modes) <= 1
                       /\ (t.modes = <<"oneway">> => t.rets = <<>>)
                       /\ \A i, j \in NamedArgs(t.args) : t.args[i].n = t.args[j].n => i = j
                       /\ \A i, j \in NamedArgs(t.rets) : t.rets[i].n = t.rets[j].n => i = j
    [] t.k = "service" -> /\ \A i \in DOMAIN t.ms : Chase(p, t.ms[i].t, {}).k = "func"
                          /\ \A i, j \in DOMAIN t.ms : t.ms[i].name = t.ms[j].name => i = j
    [] t.k = "class" -> \A i, j \in NamedArgs(t.args) : t.args[i].n = t.args[j].n => i = j
    [] OTHER -> TRUE
IsServ(p, t) == Chase(p, t, {}).k = "service"
\* a service constructor may only appear as the main actor (not in definitions, not nested)
NoInnerClass(p) == /\ \A i \in DOMAIN p.defs : \A t \in SubTerms(p.defs[i].body) : t.k # "class"
                   /\ \A t \in SubTerms(p.actor) \ {p.actor} : t.k # "class"
ActorOK(p) ==
  CASE p.actor.k = "none" -> TRUE
    [] p.actor.k = "class" -> IsServ(p, p.actor.t)
    [] OTHER -> IsServ(p, p.actor)
WF(p) ==
  /\ NoDup(p) /\ Closed(p)
  /\ NoVacuous(p)
  /\ NoInnerClass(p)
  /\ \A t \in AllTerms(p) : LocalOK(p, t)
  /\ ActorOK(p)
====
