---- MODULE MC_Hash ----
\* C15 generator: every valid UTF-8 string of <= MaxLen scalars over a scalar alphabet, plus the
\* Candid keywords; checks the recurrence the spec's formula implies and emits name + spec hash.
EXTENDS Hash, Utf8, Json
CONSTANT MaxLen
Alpha == {0, 9, 10, 32, 34, 39, 45, 48, 57, 65, 90, 92, 95, 97, 98, 122, 127, 128, 233, 2047, 2048, 55295, 57344, 65533, 65535, 65536, 128230, 1114111}
Keywords == {<<"n","a","t">>}  \* placeholder, keywords are added by the driver as explicit cases
VARIABLES s
Init == s = <<>>
Next == Len(s) < MaxLen /\ \E c \in Alpha : s' = Append(s, c)
Spec == Init /\ [][Next]_s
B == Utf8Enc(s)
Recurrence == s # <<>> => LET b == B IN IdlHash(b) = MulAdd32(IdlHash(SubSeq(b, 1, Len(b) - 1)), 223, b[Len(b)])
ValidUtf8 == Utf8All(B).ok /\ Utf8All(B).cps = s
Emit == PrintT(<<"CASE", ToJson([name |-> B, h |-> IdlHash(B)])>>)
====
