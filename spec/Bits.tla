---- MODULE Bits ----
\* Bit lists (LSB first), 16-bit-limb arithmetic for 32-bit quantities (TLC ints are 32-bit).
EXTENDS Naturals, Integers, Sequences, FiniteSets, TLC

BIG == 1073741824   \* sentinel: "does not fit a TLC int / absurdly large"
MinI(a, b) == IF a < b THEN a ELSE b
MaxI(a, b) == IF a > b THEN a ELSE b

Bits7(g) == [i \in 1..7 |-> (g \div (2^(i-1))) % 2]
Bits8(g) == [i \in 1..8 |-> (g \div (2^(i-1))) % 2]
RECURSIVE GsBits(_, _)
GsBits(gs, i) == IF i > Len(gs) THEN <<>> ELSE Bits7(gs[i]) \o GsBits(gs, i + 1)
RECURSIVE Trim(_)
Trim(s) == IF s = <<>> THEN s
           ELSE IF s[Len(s)] = 0 THEN Trim(SubSeq(s, 1, Len(s) - 1)) ELSE s
Invert(s) == [i \in 1..Len(s) |-> 1 - s[i]]
RECURSIVE AddOne(_, _)
AddOne(s, i) == IF i > Len(s) THEN Append(s, 1)
                ELSE IF s[i] = 0 THEN [s EXCEPT ![i] = 1]
                ELSE AddOne([s EXCEPT ![i] = 0], i + 1)
\* two's complement negation on a fixed width (no growth): used for sign-extended group bits
RECURSIVE AddOneW(_, _)
AddOneW(s, i) == IF i > Len(s) THEN s
                 ELSE IF s[i] = 0 THEN [s EXCEPT ![i] = 1]
                 ELSE AddOneW([s EXCEPT ![i] = 0], i + 1)
RECURSIVE SubOne(_, _)
\* s - 1 for s > 0
SubOne(s, i) == IF s[i] = 1 THEN [s EXCEPT ![i] = 0] ELSE SubOne([s EXCEPT ![i] = 1], i + 1)

RECURSIVE BitsVal(_, _, _)
\* value of bits i..j of bs (missing bits are 0); caller keeps j - i < 30
BitsVal(bs, i, j) == IF i > j THEN 0
                     ELSE (IF i <= Len(bs) THEN bs[i] ELSE 0) + 2 * BitsVal(bs, i + 1, j)
PadTo(bs, n) == [i \in 1..n |-> IF i <= Len(bs) THEN bs[i] ELSE 0]
RECURSIVE NatBits(_)
NatBits(n) == IF n = 0 THEN <<>> ELSE <<n % 2>> \o NatBits(n \div 2)

\* u32 as <<hi16, lo16>>
IdLess(a, b) == a[1] < b[1] \/ (a[1] = b[1] /\ a[2] < b[2])
U32OfNat(n) == <<n \div 65536, n % 65536>>      \* n < 2^31
U32Bits(p) == PadTo(NatBits(p[2]), 16) \o PadTo(NatBits(p[1]), 16)
\* p * m + c  mod 2^32, for m, c < 2^14
MulAdd32(p, m, c) ==
  LET lo == p[2] * m + c
      hi == p[1] * m + (lo \div 65536)
  IN <<hi % 65536, lo % 65536>>

RECURSIVE Cat(_)
Cat(ss) == IF ss = <<>> THEN <<>> ELSE Head(ss) \o Cat(Tail(ss))
SeqSet(s) == {s[i] : i \in DOMAIN s}
RECURSIVE SeqLess(_, _, _)
SeqLess(s, t, i) ==   \* strict lexicographic order on byte sequences
  IF i > Len(t) THEN FALSE
  ELSE IF i > Len(s) THEN TRUE
  ELSE IF s[i] < t[i] THEN TRUE ELSE IF s[i] > t[i] THEN FALSE ELSE SeqLess(s, t, i + 1)
====
