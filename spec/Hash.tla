---- MODULE Hash ----
\* spec/Candid.md: hash(id) = ( Sum_(i=0..k) utf8(id)[i] * 223^(k-i) ) mod 2^32
EXTENDS Bits
RECURSIVE HashFrom(_, _, _)
HashFrom(b, i, h) == IF i > Len(b) THEN h ELSE HashFrom(b, i + 1, MulAdd32(h, 223, b[i]))
IdlHash(b) == HashFrom(b, 1, <<0, 0>>)
====
