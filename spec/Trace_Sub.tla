---- MODULE Trace_Sub ----
\* C05 referee: verdicts of the real subtype / equal / report / upgrade functions against the
\* greatest fixed points of Subtype.tla, over three renderings of each environment and over
\* histories sharing one memo.
EXTENDS Subtype, Json, IOUtils
Rec == ndJsonDeserialize(IOEnv.TRACE)
VARIABLES l
Init == l = 1
Bad(tag, i) == PrintT(<<"MISMATCH", l, tag, i>>)
B(x) == IF x THEN 1 ELSE 0
SubTags == {"s0", "s1", "s2", "r0", "compat", "report", "compat_in", "report_in"}
EqTags == {"e0", "e1", "e2", "svc_eq"}
Pairs(qs) == {<<qs[i].a, qs[i].b>> : i \in DOMAIN qs}
GammaPairs(h) == UNION {{<<h[i].gamma[j][1], h[i].gamma[j][2]>> : j \in DOMAIN h[i].gamma} : i \in DOMAIN h}
CheckQs(r, S, E) ==
  \A i \in DOMAIN r.qs :
     LET q == r.qs[i]
         s == B(<<q.a, q.b>> \in S)
         e == B(<<q.a, q.b>> \in E)
     IN \A t \in DOMAIN q.o :
          IF t \in SubTags THEN (IF q.o[t] = s THEN TRUE ELSE Bad(t, i))
          ELSE (IF q.o[t] = e THEN TRUE ELSE Bad(t, i))
RECURSIVE CheckHist(_, _, _, _)
CheckHist(h, S, i, clean) ==
  IF i > Len(h) \/ ~clean THEN TRUE
  ELSE LET q == h[i]
           s == B(<<q.a, q.b>> \in S)
       IN /\ (IF q.ok = s THEN TRUE ELSE Bad("hist_verdict", i))
          /\ \A j \in DOMAIN q.gamma :
               LET g == q.gamma[j]
                   sg == B(<<g[1], g[2]>> \in S)
               IN /\ (IF g[4] = sg THEN TRUE ELSE Bad("fresh_verdict", i))
                  /\ (IF q.ok # 1 \/ g[3] = sg THEN TRUE ELSE Bad("stale_memo_answer", i))
          /\ CheckHist(h, S, i + 1, q.ok = 1)
Next == /\ l <= Len(Rec)
        /\ LET r == Rec[l] IN
           IF "abort" \in DOMAIN r THEN Bad("abort", 0)
           ELSE CASE r.kind = "env" -> CheckQs(r, SubRel(r.env), EqRel(r.env))
                  [] r.kind = "hist" -> CheckHist(r.hist, SubFrom(r.env, Pairs(r.hist) \cup GammaPairs(r.hist)), 1, TRUE)
                  [] r.kind = "rand" ->
                       /\ CheckQs(r, SubFrom(r.env, Pairs(r.qs)), EqFrom(r.env, Pairs(r.qs)))
                       /\ CheckHist(r.hist, SubFrom(r.env, Pairs(r.hist) \cup GammaPairs(r.hist)), 1, TRUE)
        /\ l' = l + 1
Spec == Init /\ [][Next]_l
Post == PrintT(<<"CONSUMED", TLCGet("stats").diameter - 1, Len(Rec)>>)
====
