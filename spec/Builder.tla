---- MODULE Builder ----
\* The encoder as an object with a history (IDLBuilder): arguments are appended one by one - native
\* values, untyped values with an inferred type, untyped values with a declared type - and the message
\* is produced by `serialize`.  Abstractly the builder is the sequence of accepted arguments; what C03
\* demands of every byte string it produces is `Denotes`: the independent decoder reads it, the argument
\* types are the declared ones (up to structural equality) and the values are the accepted ones.
\*
\* state:      [ph |-> "open", args |-> <<[t, v, typed]...>>]   |   [ph |-> "broken"]
\* operations: [op |-> "typed", t, v]   value_arg_with_type: accepted iff v inhabits t (as the untyped API admits it)
\*             [op |-> "untyped", t, v] value_arg: the type is inferred from the value; t is only what the value was built from
\*             [op |-> "native", t, v]  arg(&T): t is the type declared for T, v the abstract value
\*             [op |-> "ser"]           serialize_to_vec; may be repeated and interleaved with further arguments
EXTENDS Wire, Enc
BNew == [ph |-> "open", args |-> <<>>]
BAccepts(e, o) == o.op # "typed" \/ HasTypeL(e, o.v, o.t, 12)
BArg(st, e, o) ==
  IF st.ph # "open" THEN [st |-> st, ok |-> TRUE]
  ELSE IF BAccepts(e, o) THEN [st |-> [st EXCEPT !.args = Append(@, [t |-> o.t, v |-> o.v, typed |-> o.op # "untyped"])], ok |-> TRUE]
  ELSE [st |-> st, ok |-> FALSE]            \* a rejected argument leaves the builder as it was
\* what a produced message must satisfy
Denotes(e, bytes, args) ==
  LET m == ParseNoReplace(bytes) IN
  /\ m.ok
  /\ Len(m.types) = Len(args)
  /\ \A i \in DOMAIN args :
       /\ m.vals[i] = (IF args[i].typed THEN NormAt(e, args[i].v, args[i].t) ELSE args[i].v)
       /\ (args[i].typed => EqQ(m.env @@ e, m.types[i], args[i].t))
\* the specification's own encoder is one implementation of `serialize`
SpecBytes(e, args) ==
  LET ts == [i \in DOMAIN args |-> args[i].t]
      vs == [i \in DOMAIN args |-> args[i].v]
  IN EncB(e, CanonOrd(e, ts), ts, vs)
====
