---- MODULE Session ----
\* The step-wise decoding session (IDLDeserialize::new / get_value_with_type / is_done / done) as a
\* state machine over one message.  It is written the way the implementation works - the header is
\* read by `new`, every argument is read lazily by the `get` that asks for it - and the theorem that
\* makes it a refinement of the declarative reading of C02 (Wire.Decode: whole message, then
\* coercion) is checked by TLC in MC_Session:   a session  get(t1) .. get(tn) ; done  on a message
\* succeeds exactly when Decode(bytes, <<t1..tn>>) does, with the same values.
\*
\* session state:  [ph |-> "closed"]                         `new` returned an error
\*                 [ph |-> "open", env, args, pos, i]        header read; args[i] is the next wire argument, at byte pos
\*                 [ph |-> "broken"]                         an operation failed half-way: the API promises nothing more
\* operations:     [op |-> "get", t |-> expected type id] | [op |-> "isdone"] | [op |-> "done"]
\* outcomes:       [ok |-> value] | [err |-> 1] | [b |-> BOOLEAN] | [done |-> 1] | [any |-> 1] (unconstrained)
EXTENDS Wire
SClosed == [ph |-> "closed"]
SBroken == [ph |-> "broken"]
SNew(b) == LET h == RdHeader(b) IN
           IF h.ok THEN [ph |-> "open", env |-> h.env, args |-> h.args, pos |-> h.pos, i |-> 1] ELSE SClosed
OutOk(v) == [ok |-> v]
OutErr == [err |-> 1]
OutAny == [any |-> 1]
Pending(st) == st.ph = "open" /\ st.i <= Len(st.args)
\* an argument the message does not have: opt / null / reserved read as null (reserved), anything else is an error;
\* the session stays usable
DefaultAt(e, t) == LET k == N(e, t).k IN
                   IF k \in {"null", "opt"} THEN OutOk(Null) ELSE IF k = "reserved" THEN OutOk(Res) ELSE OutErr
SGet(st, b, eenv, t) ==
  IF st.ph # "open" THEN [st |-> st, out |-> OutAny]
  ELSE LET e == st.env @@ eenv IN
       IF st.i > Len(st.args) THEN [st |-> st, out |-> DefaultAt(e, t)]
       ELSE LET r == RdVal(st.env, b, st.pos, st.args[st.i], 0, Fuel) IN
            IF IsBomb(r) THEN [st |-> SBroken, out |-> OutAny]
            ELSE IF ~r.ok THEN [st |-> SBroken, out |-> OutErr]
            ELSE LET S == IF HasRef(st.env) /\ HasRef(eenv) THEN SubFrom(e, RefNodes(st.env) \X RefNodes(eenv)) ELSE {}
                     c == Co(e, S, r.v, st.args[st.i], t)
                 IN IF c.ok THEN [st |-> [st EXCEPT !.pos = r.pos, !.i = @ + 1], out |-> OutOk(c.v)]
                    ELSE [st |-> SBroken, out |-> OutErr]
\* done: the remaining arguments are skipped (they must still be well-formed), then nothing may be left over
RECURSIVE SSkip(_, _)
SSkip(st, b) ==
  IF st.i > Len(st.args) THEN [ok |-> TRUE, st |-> st]
  ELSE LET r == RdVal(st.env, b, st.pos, st.args[st.i], 0, Fuel) IN
       IF IsBomb(r) THEN [ok |-> FALSE, bomb |-> TRUE]
       ELSE IF ~r.ok THEN [ok |-> FALSE]
       ELSE SSkip([st EXCEPT !.pos = r.pos, !.i = @ + 1], b)
SDone(st, b) ==
  IF st.ph # "open" THEN [st |-> st, out |-> OutAny]
  ELSE LET s == SSkip(st, b) IN
       IF "bomb" \in DOMAIN s THEN [st |-> SBroken, out |-> OutAny]
       ELSE IF ~s.ok THEN [st |-> SBroken, out |-> OutErr]
       ELSE IF s.st.pos = Len(b) + 1 THEN [st |-> s.st, out |-> [done |-> 1]]
       ELSE [st |-> s.st, out |-> OutErr]          \* trailing bytes: an error, and it stays one
SIsDone(st) == IF st.ph # "open" THEN [st |-> st, out |-> OutAny] ELSE [st |-> st, out |-> [b |-> ~Pending(st)]]
SStep(st, b, eenv, o) ==
  CASE o.op = "get" -> SGet(st, b, eenv, o.t)
    [] o.op = "isdone" -> SIsDone(st)
    [] o.op = "done" -> SDone(st, b)
\* the outcomes of a whole operation sequence
RECURSIVE SRun(_, _, _, _, _, _)
SRun(st, b, eenv, ops, j, acc) ==
  IF j > Len(ops) THEN acc
  ELSE LET r == SStep(st, b, eenv, ops[j]) IN SRun(r.st, b, eenv, ops, j + 1, Append(acc, r.out))
Outcomes(b, eenv, ops) == SRun(SNew(b), b, eenv, ops, 1, <<>>)
====
