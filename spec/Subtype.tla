---- MODULE Subtype ----
\* spec/Candid.md "Rules": subtyping as the greatest fixed point of the rule functional.
EXTENDS Types
SubStep(e, R, a, b) ==
  LET x == N(e, a)
      y == N(e, b)
  IN  \/ y.k = "reserved"
      \/ x.k = "empty"
      \/ (x.k = y.k /\ x.k \in PrimKinds)
      \/ (x.k = "nat" /\ y.k = "int")
      \/ (x.k = "service" /\ y.k = "principal")
      \/ y.k = "opt"
      \/ (x.k = "vec" /\ y.k = "vec" /\ <<x.a, y.a>> \in R)
      \/ (x.k = "record" /\ y.k = "record" /\
            \A j \in DOMAIN y.fs :
               IF y.fs[j].id \in FieldIds(x.fs)
               THEN <<FieldTy(x.fs, y.fs[j].id), y.fs[j].t>> \in R
               ELSE IsOptLike(e, y.fs[j].t))
      \/ (x.k = "variant" /\ y.k = "variant" /\
            \A j \in DOMAIN x.fs :
               x.fs[j].id \in FieldIds(y.fs) /\
               <<x.fs[j].t, FieldTy(y.fs, x.fs[j].id)>> \in R)
      \/ (x.k = "func" /\ y.k = "func" /\ SeqSet(x.modes) = SeqSet(y.modes) /\
            (\A i \in DOMAIN x.args :
                IF i <= Len(y.args) THEN <<y.args[i], x.args[i]>> \in R
                ELSE IsOptLike(e, x.args[i])) /\
            (\A i \in DOMAIN y.rets :
                IF i <= Len(x.rets) THEN <<x.rets[i], y.rets[i]>> \in R
                ELSE IsOptLike(e, y.rets[i])))
      \/ (x.k = "service" /\ y.k = "service" /\
            \A j \in DOMAIN y.ms :
               y.ms[j].name \in MethNames(x.ms) /\
               <<MethTy(x.ms, y.ms[j].name), y.ms[j].t>> \in R)

RECURSIVE Gfp(_, _)
Gfp(e, R) == LET R2 == {p \in R : SubStep(e, R, p[1], p[2])}
             IN IF R2 = R THEN R ELSE Gfp(e, R2)
SubRel(e) == Gfp(e, (DOMAIN e) \X (DOMAIN e))
Sub(e, a, b) == <<a, b>> \in SubRel(e)


\* pairs the rule for <<a,b>> may consult
Succ(e, p) ==
  LET x == N(e, p[1])
      y == N(e, p[2])
  IN CASE x.k = "vec" /\ y.k = "vec" -> {<<x.a, y.a>>}
       [] x.k = "record" /\ y.k = "record" -> {<<FieldTy(x.fs, y.fs[j].id), y.fs[j].t>> : j \in {j \in DOMAIN y.fs : y.fs[j].id \in FieldIds(x.fs)}}
       [] x.k = "variant" /\ y.k = "variant" -> {<<x.fs[j].t, FieldTy(y.fs, x.fs[j].id)>> : j \in {j \in DOMAIN x.fs : x.fs[j].id \in FieldIds(y.fs)}}
       [] x.k = "func" /\ y.k = "func" ->
            {<<y.args[i], x.args[i]>> : i \in {i \in DOMAIN x.args : i <= Len(y.args)}} \cup
            {<<x.rets[i], y.rets[i]>> : i \in {i \in DOMAIN y.rets : i <= Len(x.rets)}}
       [] x.k = "service" /\ y.k = "service" -> {<<MethTy(x.ms, y.ms[j].name), y.ms[j].t>> : j \in {j \in DOMAIN y.ms : y.ms[j].name \in MethNames(x.ms)}}
       [] OTHER -> {}
RECURSIVE ReachP(_, _, _)
ReachP(e, done, todo) ==
  IF todo = {} THEN done
  ELSE LET new == (UNION {Succ(e, p) : p \in todo}) \ (done \cup todo)
       IN ReachP(e, done \cup todo, new)
\* the relation restricted to what the queries in Q can depend on (equals SubRel(e) on that set)
SubFrom(e, Q) == Gfp(e, ReachP(e, {}, Q))
SubQ(e, a, b) == <<a, b>> \in SubFrom(e, {<<a, b>>})

\* ---- structural equality (bisimulation): no opt rules, same field ids / method names / modes / arities
EqStep(e, R, a, b) ==
  LET x == N(e, a)
      y == N(e, b)
  IN /\ x.k = y.k
     /\ CASE x.k \in {"opt", "vec"} -> <<x.a, y.a>> \in R
          [] x.k \in {"record", "variant"} ->
               Len(x.fs) = Len(y.fs) /\ \A j \in DOMAIN x.fs : x.fs[j].id = y.fs[j].id /\ <<x.fs[j].t, y.fs[j].t>> \in R
          [] x.k = "func" ->
               x.modes = y.modes /\ Len(x.args) = Len(y.args) /\ Len(x.rets) = Len(y.rets) /\
               (\A i \in DOMAIN x.args : <<x.args[i], y.args[i]>> \in R) /\
               (\A i \in DOMAIN x.rets : <<x.rets[i], y.rets[i]>> \in R)
          [] x.k = "service" ->
               Len(x.ms) = Len(y.ms) /\ \A j \in DOMAIN x.ms : x.ms[j].name = y.ms[j].name /\ <<x.ms[j].t, y.ms[j].t>> \in R
          [] OTHER -> TRUE
EqSucc(e, p) ==
  LET x == N(e, p[1])
      y == N(e, p[2])
  IN IF x.k # y.k THEN {}
     ELSE CASE x.k \in {"opt", "vec"} -> {<<x.a, y.a>>}
            [] x.k \in {"record", "variant"} -> {<<x.fs[j].t, y.fs[j].t>> : j \in {j \in DOMAIN x.fs : j <= Len(y.fs)}}
            [] x.k = "func" -> {<<x.args[i], y.args[i]>> : i \in {i \in DOMAIN x.args : i <= Len(y.args)}} \cup
                               {<<x.rets[i], y.rets[i]>> : i \in {i \in DOMAIN x.rets : i <= Len(y.rets)}}
            [] x.k = "service" -> {<<x.ms[j].t, y.ms[j].t>> : j \in {j \in DOMAIN x.ms : j <= Len(y.ms)}}
            [] OTHER -> {}
RECURSIVE EGfp(_, _)
EGfp(e, R) == LET R2 == {p \in R : EqStep(e, R, p[1], p[2])} IN IF R2 = R THEN R ELSE EGfp(e, R2)
RECURSIVE EqReachP(_, _, _)
EqReachP(e, done, todo) ==
  IF todo = {} THEN done
  ELSE LET new == (UNION {EqSucc(e, p) : p \in todo}) \ (done \cup todo)
       IN EqReachP(e, done \cup todo, new)
EqRel(e) == EGfp(e, (DOMAIN e) \X (DOMAIN e))
EqFrom(e, Q) == EGfp(e, EqReachP(e, {}, Q))
EqQ(e, a, b) == <<a, b>> \in EqFrom(e, {<<a, b>>})
====
