---- MODULE MC_Rand ----
\* The generator as a pushdown machine over a universe of (environment, requested type, configuration), explored
\* exhaustively by TLC.  One action per step of the real recursion:
\*   Enter    a frame decides its shape from the entropy that is left (option: null/some, vector: length, variant:
\*            alternative, leaves: a value); with no entropy left every choice is the smallest one
\*            (arbitrary::Unstructured returns the start of the range when its bytes are used up)
\*   Descend  push the frame of the next child with the configuration the child sees
\*   Return   pop a finished frame and hand its value to the parent (a vector also books the size its element used)
\*   Trip     the recursion guard: when the stack is Guard frames deep the run ends with an error (in the code: the
\*            remaining-stack check inside the type lookup)
\* Checked here, for every behaviour: the stack never exceeds Guard (StackBound), every run ends (Termination, under
\* weak fairness), and a returned value inhabits the requested type and satisfies the laws of RandGen.tla (Sound) -
\* i.e. the relational reading used by the referee (Trace_Rand.tla) is what this machine does.  With Guard switched
\* off (MC_Rand_noguard.cfg) TLC finds the runs that never end: uninhabited recursive types, and inhabited ones whose
\* first alternative recurses once the entropy is gone.
\* Every universe element is emitted as a CASE for the harness, which runs the real generator on it with many seeds.
EXTENDS RandGen, Json
CONSTANTS MaxEnt,     \* units of entropy (one per non-minimal choice)
          MaxLen,     \* vectors longer than this are not explored
          Guard,      \* recursion guard (frames)
          U           \* "small" | "full"
Id(n) == <<0, n>>
F(n, t) == [id |-> Id(n), t |-> t]
P(k) == "p_" \o k
Prims(ks) == [id \in {P(k) : k \in ks} |-> [k |-> CHOOSE k \in ks : P(k) = id]]
G1(body) == ("v_A" :> body)
\* environments: definition bodies over A (and B), with the anonymous nodes they need
Envs ==
  LET pr == Prims({"nat", "null", "empty", "text", "int8"})
      opA == ("n1" :> [k |-> "opt", a |-> "v_A"])
      veA == ("n2" :> [k |-> "vec", a |-> "v_A"])
      rcA == ("n3" :> [k |-> "record", fs |-> <<F(0, "v_A")>>])
      rcAA == ("n4" :> [k |-> "record", fs |-> <<F(0, "v_A"), F(1, "v_A")>>])
      vnat == ("n5" :> [k |-> "vec", a |-> P("nat")])
      venat == ("n6" :> [k |-> "vec", a |-> "n5"])
  IN {
    \* uninhabited recursion
    [name |-> "rec_self", g |-> pr @@ G1([k |-> "record", fs |-> <<F(0, "v_A")>>]), defs |-> {"v_A"}, root |-> "v_A"],
    [name |-> "var_self", g |-> pr @@ G1([k |-> "variant", fs |-> <<F(0, "v_A")>>]), defs |-> {"v_A"}, root |-> "v_A"],
    [name |-> "mutual", g |-> pr @@ G1([k |-> "record", fs |-> <<F(0, P("nat")), F(1, "v_B")>>]) @@ ("v_B" :> [k |-> "record", fs |-> <<F(0, "v_A")>>]), defs |-> {"v_A", "v_B"}, root |-> "v_A"],
    \* inhabited, but the first alternative recurses
    [name |-> "first_recurses", g |-> pr @@ rcA @@ opA @@ G1([k |-> "variant", fs |-> <<F(0, "n3"), F(1, "n1")>>]), defs |-> {"v_A"}, root |-> "v_A"],
    [name |-> "tree_or_vec", g |-> pr @@ rcAA @@ veA @@ G1([k |-> "variant", fs |-> <<F(0, "n4"), F(1, "n2")>>]), defs |-> {"v_A"}, root |-> "v_A"],
    \* the usual recursive shapes
    [name |-> "opt_self", g |-> pr @@ G1([k |-> "opt", a |-> "v_A"]), defs |-> {"v_A"}, root |-> "v_A"],
    [name |-> "vec_self", g |-> pr @@ G1([k |-> "vec", a |-> "v_A"]), defs |-> {"v_A"}, root |-> "v_A"],
    [name |-> "list", g |-> pr @@ opA @@ G1([k |-> "record", fs |-> <<F(0, P("nat")), F(1, "n1")>>]), defs |-> {"v_A"}, root |-> "v_A"],
    [name |-> "list_variant", g |-> pr @@ ("n7" :> [k |-> "record", fs |-> <<F(0, P("nat")), F(1, "v_A")>>]) @@ G1([k |-> "variant", fs |-> <<F(0, P("null")), F(1, "n7")>>]), defs |-> {"v_A"}, root |-> "v_A"],
    [name |-> "tree", g |-> pr @@ rcAA @@ veA @@ G1([k |-> "variant", fs |-> <<F(0, P("int8")), F(1, "n4")>>]), defs |-> {"v_A"}, root |-> "n2"],
    \* a definition mentioned twice on different paths is not recursion: the leaf stays the smaller alternative
    [name |-> "repeated_alias", g |-> pr @@ rcA @@ ("n9" :> [k |-> "record", fs |-> <<F(0, "v_B"), F(1, "v_B")>>]) @@ ("v_B" :> [k |-> "int8"])
                                      @@ G1([k |-> "variant", fs |-> <<F(0, "n3"), F(1, "n9")>>]), defs |-> {"v_A", "v_B"}, root |-> "v_A"],
    [name |-> "rename", g |-> pr @@ G1([k |-> "alias", a |-> "v_B"]) @@ ("v_B" :> [k |-> "opt", a |-> "v_A"]), defs |-> {"v_A", "v_B"}, root |-> "v_A"],
    \* empty and empty variants
    [name |-> "empty", g |-> pr @@ G1([k |-> "empty"]), defs |-> {"v_A"}, root |-> "v_A"],
    [name |-> "no_alternatives", g |-> pr @@ opA @@ G1([k |-> "variant", fs |-> <<>>]), defs |-> {"v_A"}, root |-> "n1"],
    [name |-> "only_empty", g |-> pr @@ G1([k |-> "variant", fs |-> <<F(0, P("empty"))>>]), defs |-> {"v_A"}, root |-> "v_A"],
    [name |-> "empty_or_nat", g |-> pr @@ veA @@ G1([k |-> "variant", fs |-> <<F(0, P("empty")), F(1, P("nat"))>>]), defs |-> {"v_A"}, root |-> "n2"],
    \* vectors written in place (the size budget shrinks along the elements)
    [name |-> "vec_vec", g |-> pr @@ vnat @@ venat @@ G1([k |-> "record", fs |-> <<F(0, "n6"), F(1, P("text"))>>]), defs |-> {"v_A"}, root |-> "v_A"],
    [name |-> "vec_opt", g |-> pr @@ ("n8" :> [k |-> "opt", a |-> P("nat")]) @@ G1([k |-> "vec", a |-> "n8"]), defs |-> {"v_A"}, root |-> "v_A"]
  }
NoC == [range |-> <<>>, text |-> "", width |-> <<>>, value |-> <<>>, depth |-> <<>>, size |-> <<>>]
Cfgs ==
  LET w == [NoC EXCEPT !.width = <<2>>]
      forA(c) == [root |-> w, defs |-> ("v_A" :> c)]
  IN {[root |-> w, defs |-> <<>>]}
     \cup {forA([NoC EXCEPT !.depth = <<d>>]) : d \in IF U = "small" THEN {0, 2} ELSE {-1, 0, 1, 2, 3}}
     \cup {forA([NoC EXCEPT !.size = <<s>>]) : s \in IF U = "small" THEN {2} ELSE {0, 1, 2, 3}}
     \cup {forA([NoC EXCEPT !.depth = <<3>>, !.size = <<4>>, !.width = <<1>>])}
     \cup (IF U = "small" THEN {} ELSE {[root |-> [w EXCEPT !.range = <<PInt(-5), PInt(5)>>], defs |-> <<>>],
                                        [root |-> [w EXCEPT !.text = "emoji", !.width = <<1>>], defs |-> <<>>]})

VARIABLES uni, stk, ent, res
vars == <<uni, stk, ent, res>>
E == [g |-> uni.env.g, defs |-> uni.env.defs]
None == [k |-> "none"]
\* a frame: node t, configuration c at the node (after entry and the node's own decrement), definitions on the path,
\* phase, number of children wanted, chosen alternative, values of the finished children, running size (vectors)
NewFrame(t, c0, seen) ==
  LET c1 == EnterDef(E, uni.cfg, c0, t, seen)
  IN [t |-> t, c |-> Dec(c1), seen |-> IF t \in E.defs THEN seen \cup {t} ELSE seen, ph |-> "enter", n |-> 0, alt |-> 0, acc |-> <<>>, cs |-> 0]
Node(f) == N(E.g, f.t)
Top == stk[Len(stk)]
SetTop(f) == [stk EXCEPT ![Len(stk)] = f]
Init == /\ uni \in [env : Envs, cfg : Cfgs]
        /\ ent = MaxEnt
        /\ res = None
        /\ stk = <<>>
Start == /\ stk = <<>> /\ res = None
         /\ stk' = <<NewFrame(uni.env.root, RootCfg(uni.cfg), {})>>
         /\ UNCHANGED <<uni, ent, res>>
Leaf(x, c) == CASE x.k = "nat" -> IF c.rng = <<>> THEN PNat(300) ELSE (IF c.rng[1].neg THEN PNat(0) ELSE c.rng[1])
                [] x.k = "int8" -> [k |-> "fix", bytes |-> <<IF c.rng = <<>> THEN 128 ELSE 251>>]      \* -128, or -5 inside [-5, 5]
                [] x.k = "null" -> Null
                [] x.k = "text" -> [k |-> "text", cps |-> IF c.txt = "emoji" THEN <<127744>> ELSE IF c.w > 0 THEN <<97>> ELSE <<>>]
\* weights of the alternatives, as the code computes them
Weights(x, c) == LET es == [i \in DOMAIN x.fs |-> EffSize(E, x.fs[i].t)]
                     mn == MinAlt(E, x.fs)
                 IN IF Cut(c) THEN [i \in DOMAIN x.fs |-> IF es[i] > mn THEN 0 ELSE es[i]] ELSE es
Enter ==
  /\ stk # <<>> /\ res = None /\ Top.ph = "enter" /\ Len(stk) < Guard
  /\ LET f == Top  x == Node(f) IN
     CASE x.k = "empty" -> res' = [k |-> "err", why |-> "empty"] /\ UNCHANGED <<stk, ent>>
       [] x.k \in {"nat", "null", "text", "int8"} ->
            /\ stk' = SetTop([f EXCEPT !.ph = "done", !.acc = <<Leaf(x, f.c)>>]) /\ UNCHANGED <<ent, res>>
       [] x.k = "opt" ->
            \E b \in (IF Cut(f.c) \/ ent = 0 THEN {0} ELSE {0, 1}) :
               /\ stk' = SetTop([f EXCEPT !.ph = "kids", !.n = b]) /\ ent' = ent - b /\ UNCHANGED res
       [] x.k = "vec" ->
            \E n \in 0..(IF ent = 0 THEN 0 ELSE MinI(MaxLen, f.c.w)) :
               /\ stk' = SetTop([f EXCEPT !.ph = "kids", !.n = n, !.cs = f.c.s]) /\ ent' = ent - (IF n > 0 THEN 1 ELSE 0) /\ UNCHANGED res
       [] x.k = "record" ->
            /\ stk' = SetTop([f EXCEPT !.ph = "kids", !.n = Len(x.fs)]) /\ UNCHANGED <<ent, res>>
       [] x.k = "variant" ->
            LET w == Weights(x, f.c)
                ok == {i \in DOMAIN x.fs : w[i] > 0}
            IN IF ok = {} THEN res' = [k |-> "err", why |-> "empty variant"] /\ UNCHANGED <<stk, ent>>
               ELSE LET first == CHOOSE i \in ok : \A j \in ok : i <= j IN
                    \E i \in (IF ent = 0 THEN {first} ELSE ok) :
                       /\ stk' = SetTop([f EXCEPT !.ph = "kids", !.n = 1, !.alt = i])
                       /\ ent' = ent - (IF i = first THEN 0 ELSE 1) /\ UNCHANGED res
  /\ UNCHANGED uni
ChildTy(f, x) == CASE x.k \in {"opt", "vec"} -> x.a
                   [] x.k = "record" -> x.fs[Len(f.acc) + 1].t
                   [] x.k = "variant" -> x.fs[f.alt].t
Descend ==
  /\ stk # <<>> /\ res = None /\ Top.ph = "kids" /\ Len(Top.acc) < Top.n
  /\ LET f == Top  x == Node(f)
         c == IF x.k = "vec" THEN [f.c EXCEPT !.s = f.cs] ELSE f.c
     IN stk' = Append(stk, NewFrame(ChildTy(f, x), c, f.seen))
  /\ UNCHANGED <<uni, ent, res>>
Build(f, x) == CASE x.k = "opt" -> IF f.n = 0 THEN Null ELSE [k |-> "opt", v |-> f.acc[1]]
                 [] x.k = "vec" -> [k |-> "vec", vs |-> f.acc]
                 [] x.k = "record" -> [k |-> "rec", fs |-> [j \in DOMAIN x.fs |-> [id |-> x.fs[j].id, v |-> f.acc[j]]]]
                 [] x.k = "variant" -> [k |-> "var", id |-> x.fs[f.alt].id, v |-> f.acc[1]]
                 [] OTHER -> f.acc[1]
Return ==
  /\ stk # <<>> /\ res = None
  /\ (Top.ph = "done" \/ (Top.ph = "kids" /\ Len(Top.acc) = Top.n))
  /\ LET f == Top  v == Build(f, Node(f)) IN
     IF Len(stk) = 1 THEN res' = [k |-> "ok", v |-> v] /\ stk' = <<>>
     ELSE LET p == stk[Len(stk) - 1]
              p2 == [p EXCEPT !.acc = Append(@, v), !.cs = IF f.t \in E.defs THEN @ ELSE @ - 1]
          IN stk' = [SubSeq(stk, 1, Len(stk) - 1) EXCEPT ![Len(stk) - 1] = p2] /\ UNCHANGED res
  /\ UNCHANGED <<uni, ent>>
Trip == /\ stk # <<>> /\ res = None /\ Len(stk) >= Guard /\ Top.ph = "enter"
        /\ res' = [k |-> "err", why |-> "recursion limit"]
        /\ UNCHANGED <<uni, stk, ent>>
Next == Start \/ Enter \/ Descend \/ Return \/ Trip
Spec == Init /\ [][Next]_vars /\ WF_vars(Next)

StackBound == Len(stk) <= Guard
Shallow == Len(stk) <= 30
Sound == res.k = "ok" => /\ HasType(E.g, res.v, uni.env.root, 100)
                         /\ Laws(E, uni.cfg, res.v, uni.env.root, RootCfg(uni.cfg), {}) = {}
\* an uninhabited type never yields a value
NoValueOfUninhabited == (uni.env.name \in {"rec_self", "var_self", "mutual", "empty", "only_empty"}) => res.k # "ok"
Termination == <>(res # None)
Emit == (stk = <<>> /\ res = None) =>
          PrintT(<<"CASE", ToJson([env |-> uni.env.g, types |-> <<uni.env.root>>, defs |-> uni.env.defs, name |-> uni.env.name, cfg |-> uni.cfg])>>)
====
