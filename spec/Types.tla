---- MODULE Types ----
\* Type graphs: an environment is a function node-id -> node; every type occurrence is a node id.
\* node = [k |-> prim] | [k |-> "opt"|"vec", a |-> id] | [k |-> "record"|"variant", fs |-> <<[id |-> <<hi,lo>>, t |-> id]...>>]
\*      | [k |-> "func", args, rets, modes] | [k |-> "service", ms |-> <<[name |-> bytes, t |-> id]...>>]
\*      | [k |-> "alias", a |-> id] | [k |-> "future"]
EXTENDS Bits
PrimNames == <<"null", "bool", "nat", "int", "nat8", "nat16", "nat32", "nat64",
               "int8", "int16", "int32", "int64", "float32", "float64", "text",
               "reserved", "empty">>
PrimKinds == {PrimNames[i] : i \in 1..17} \cup {"principal"}
PrimId(name) == "p_" \o name
PrimEnv == [id \in {PrimId(n) : n \in PrimKinds} |->
              [k |-> CHOOSE n \in PrimKinds : PrimId(n) = id]]
FixWidth(k) == CASE k \in {"nat8", "int8"} -> 1 [] k \in {"nat16", "int16"} -> 2
                 [] k \in {"nat32", "int32", "float32"} -> 4
                 [] k \in {"nat64", "int64", "float64"} -> 8 [] OTHER -> 0

RECURSIVE Unf(_, _)
Unf(e, id) == IF e[id].k = "alias" THEN Unf(e, e[id].a) ELSE id
N(e, id) == e[Unf(e, id)]
IsOptLike(e, id) == N(e, id).k \in {"null", "reserved", "opt"}

FieldIds(fs) == {fs[i].id : i \in DOMAIN fs}
FieldTy(fs, id) == fs[CHOOSE i \in DOMAIN fs : fs[i].id = id].t
MethNames(ms) == {ms[i].name : i \in DOMAIN ms}
MethTy(ms, nm) == ms[CHOOSE i \in DOMAIN ms : ms[i].name = nm].t


\* well-formed graph: references resolve, aliases are productive, fields ascending, methods ascending & functions
RECURSIVE AliasOK(_, _, _)
AliasOK(e, id, seen) == IF id \notin DOMAIN e THEN FALSE
                        ELSE IF e[id].k # "alias" THEN TRUE
                        ELSE IF id \in seen THEN FALSE ELSE AliasOK(e, e[id].a, seen \cup {id})
NodeRefs(n) == CASE n.k \in {"opt", "vec", "alias"} -> {n.a}
                 [] n.k \in {"record", "variant"} -> {n.fs[i].t : i \in DOMAIN n.fs}
                 [] n.k = "func" -> SeqSet(n.args) \cup SeqSet(n.rets)
                 [] n.k = "service" -> {n.ms[i].t : i \in DOMAIN n.ms}
                 [] OTHER -> {}
GraphOK(e) == \A id \in DOMAIN e :
                 /\ NodeRefs(e[id]) \subseteq DOMAIN e
                 /\ AliasOK(e, id, {})
                 /\ (e[id].k \in {"record", "variant"} => \A i \in 1..(Len(e[id].fs) - 1) : IdLess(e[id].fs[i].id, e[id].fs[i+1].id))
====
