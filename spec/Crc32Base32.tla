---- MODULE Crc32Base32 ----
\* CRC-32 (IEEE, reflected 0xEDB88320) on 16-bit limbs; RFC 4648 base32 without padding;
\* textual form of principals (docs: "ic-interface-spec#textual-ids").
EXTENDS Bits, Bitwise
Shr1(p) == <<p[1] \div 2, (p[2] \div 2) + (IF p[1] % 2 = 1 THEN 32768 ELSE 0)>>
Poly == <<60856, 33568>>
XorP(p, q) == <<p[1] ^^ q[1], p[2] ^^ q[2]>>
RECURSIVE CrcBits(_, _)
CrcBits(p, n) == IF n = 0 THEN p ELSE
                 CrcBits(IF p[2] % 2 = 1 THEN XorP(Shr1(p), Poly) ELSE Shr1(p), n - 1)
RECURSIVE CrcGo(_, _, _)
CrcGo(b, i, c) == IF i > Len(b) THEN <<65535 - c[1], 65535 - c[2]>>
                  ELSE CrcGo(b, i + 1, CrcBits(<<c[1], c[2] ^^ b[i]>>, 8))
Crc32(b) == CrcGo(b, 1, <<65535, 65535>>)
CrcBytes(b) == LET c == Crc32(b) IN <<c[1] \div 256, c[1] % 256, c[2] \div 256, c[2] % 256>>   \* big endian

\* base32: bytes -> MSB-first bit string -> 5-bit symbols (last one zero padded)
MsbBits(x) == [i \in 1..8 |-> (x \div (2^(8-i))) % 2]
AllBits(b) == Cat([i \in DOMAIN b |-> MsbBits(b[i])])
Sym5(bs, k) == LET at(i) == IF i <= Len(bs) THEN bs[i] ELSE 0
               IN 16*at(5*k+1) + 8*at(5*k+2) + 4*at(5*k+3) + 2*at(5*k+4) + at(5*k+5)
B32Char(v) == IF v < 26 THEN 97 + v ELSE 50 + (v - 26)       \* a-z, 2-7 (lower case)
Base32(b) == LET bs == AllBits(b)
                 n == (Len(bs) + 4) \div 5
             IN [k \in 1..n |-> B32Char(Sym5(bs, k - 1))]
RECURSIVE Group5(_, _)
Group5(cs, i) ==  \* insert '-' (45) between groups of five
  IF i > Len(cs) THEN <<>>
  ELSE (IF i > 1 /\ (i - 1) % 5 = 0 THEN <<45>> ELSE <<>>) \o <<cs[i]>> \o Group5(cs, i + 1)
Canon(b) == Group5(Base32(CrcBytes(b) \o b), 1)                \* code points of the canonical text

\* liberal reading of a text: drop '-', fold case, base32 decode (must be valid symbols,
\* no partial-byte garbage other than zero padding bits), then re-print and compare
Lower(c) == IF c >= 65 /\ c <= 90 THEN c + 32 ELSE c
B32Val(c) == IF c >= 97 /\ c <= 122 THEN c - 97 ELSE IF c >= 50 /\ c <= 55 THEN c - 24 ELSE 0 - 1
NoDash(s) == SelectSeq(s, LAMBDA c : c # 45)
Bits5(v) == [i \in 1..5 |-> (v \div (2^(5-i))) % 2]
BytesOfBits(bs) == [k \in 1..(Len(bs) \div 8) |->
                      128*bs[8*k-7] + 64*bs[8*k-6] + 32*bs[8*k-5] + 16*bs[8*k-4] + 8*bs[8*k-3] + 4*bs[8*k-2] + 2*bs[8*k-1] + bs[8*k]]
\* [ok, bytes]: the principal a text denotes, or not ok.  Accept iff the canonical text of the
\* decoded payload equals the input up to letter case.
Accept(s) ==
  LET low == [i \in DOMAIN s |-> Lower(s[i])]
      syms == NoDash(low)
  IN IF \E i \in DOMAIN syms : B32Val(syms[i]) < 0 THEN [ok |-> FALSE]
     ELSE LET bs == Cat([i \in DOMAIN syms |-> Bits5(B32Val(syms[i]))])
              by == BytesOfBits(bs)
          IN IF Len(by) < 4 THEN [ok |-> FALSE]
             ELSE LET payload == SubSeq(by, 5, Len(by))
                  IN IF Len(payload) > 29 THEN [ok |-> FALSE]
                     ELSE IF Canon(payload) = low THEN [ok |-> TRUE, bytes |-> payload] ELSE [ok |-> FALSE]
====
