---- MODULE Trace_Suite ----
\* Specification sanity: Wire.tla + Coerce.tla evaluated on the conformance suite must come out
\* as test/*.test.did asserts ("SUITE" mismatches are specification bugs); the real decoder's
\* outcome on the same inputs is compared as well ("IMPL" mismatches).
EXTENDS Wire, Json, IOUtils
Rec == ndJsonDeserialize(IOEnv.TRACE)
SpecOut(r, inp) ==
  IF "blob" \in DOMAIN inp
  THEN LET d == Decode(inp.blob, r.env, r.types) IN
       IF d.ok THEN [ok |-> TRUE, v |-> d.v] ELSE IF IsBomb(d) THEN [ok |-> FALSE, unjudged |-> TRUE] ELSE [ok |-> FALSE]
  ELSE IF "ok" \in DOMAIN inp.text THEN [ok |-> TRUE, v |-> inp.text.ok] ELSE [ok |-> FALSE]
\* messages beyond the specification's fuel (two assertions with 1000-element vectors) are not judged
Unj(x) == "unjudged" \in DOMAIN x
Verdict(r) ==
  LET L == SpecOut(r, r.left) IN
  IF Unj(L) \/ (r.hasright = 1 /\ Unj(SpecOut(r, r.right))) THEN TRUE
  ELSE IF r.hasright = 0 THEN (IF r.pass = 1 THEN L.ok ELSE ~L.ok)
  ELSE LET R == SpecOut(r, r.right) IN
       L.ok /\ R.ok /\ (IF r.pass = 1 THEN L.v = R.v ELSE L.v # R.v)
Agree(r, inp) ==
  IF "blob" \notin DOMAIN inp THEN TRUE
  ELSE LET s == SpecOut(r, inp) IN
       IF Unj(s) THEN TRUE ELSE IF s.ok THEN ("ok" \in DOMAIN inp.real /\ inp.real.ok = s.v) ELSE "err" \in DOMAIN inp.real
VARIABLES l
Init == l = 1
Bad(tag) == PrintT(<<"MISMATCH", l, tag>>)
Next == /\ l <= Len(Rec)
        /\ LET r == Rec[l] IN
             /\ (IF Verdict(r) THEN TRUE ELSE Bad("SUITE"))
             /\ (IF Agree(r, r.left) THEN TRUE ELSE Bad("IMPL-LEFT"))
             /\ (IF r.hasright = 0 THEN TRUE ELSE IF Agree(r, r.right) THEN TRUE ELSE Bad("IMPL-RIGHT"))
        /\ l' = l + 1
Spec == Init /\ [][Next]_l
Post == PrintT(<<"CONSUMED", TLCGet("stats").diameter - 1, Len(Rec)>>)
====
