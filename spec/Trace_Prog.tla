---- MODULE Trace_Prog ----
\* Referee for programs: C14 (checker verdict = WellFormed, accepted programs are closed: downstream
\* operations neither fail nor panic) and C12 (printed program re-checks to structurally equal graphs).
EXTENDS Subtype, Hash, Json, IOUtils
Rec == ndJsonDeserialize(IOEnv.TRACE)
LabIdRec(l) == IF l.k = "id" THEN <<l.v[1], l.v[2]>> ELSE IdlHash(l.b)
INSTANCE WellFormed WITH LabId <- LabIdRec
VerdictTags(want, r) ==
  IF r.impl = 2 THEN {"checker_panics:" \o r.msg}
  ELSE IF want /\ r.impl = 0 THEN {"rejects_wellformed"}
  ELSE IF ~want /\ r.impl = 1 THEN {"accepts_illformed"}
  ELSE {}
Gens == {"js", "ts", "mo", "rs"}
DownTags(r) ==
  IF r.impl # 1 THEN {}
  ELSE {"downstream:" \o k \o ":" \o r.down[k] : k \in {k \in {"trace", "subtype", "equal"} : r.down[k] # "ok"}}
       \cup {"downstream_panic:" \o g \o "@" \o r.down.bindings[g].panic : g \in {g \in Gens : "panic" \in DOMAIN r.down.bindings[g]}}
       \cup {"nondeterministic:" \o g : g \in {g \in Gens : "same" \in DOMAIN r.down.bindings[g] /\ r.down.bindings[g].same # 1}}
SameGraph(g, h) ==
  LET e == g.nodes @@ h.nodes IN
  /\ DOMAIN g.defs = DOMAIN h.defs
  /\ \A n \in DOMAIN g.defs : EqQ(e, g.defs[n], h.defs[n])
  /\ (g.actor = "none") = (h.actor = "none")
  /\ (g.actor # "none" => EqQ(e, g.actor, h.actor))
  /\ Len(g.init) = Len(h.init) /\ \A i \in DOMAIN g.init : EqQ(e, g.init[i], h.init[i])
PrintTags(r) ==
  UNION {LET p == r.prints[i] IN
         (IF p.same = 1 THEN {} ELSE {p.which \o ":nondeterministic"})
         \cup (IF "ok" \in DOMAIN p.re THEN (IF SameGraph(r.g, p.re.ok) THEN {} ELSE {p.which \o ":reparsed_interface_differs"})
               ELSE IF "panic" \in DOMAIN p.re THEN {p.which \o ":panic"} ELSE {p.which \o ":printed_text_rejected"})
         : i \in DOMAIN r.prints}
Tags(r) == IF "abort" \in DOMAIN r THEN {"abort"}
           ELSE CASE r.kind = "wf" -> VerdictTags(r.wf = 1, r) \cup DownTags(r)
                  [] r.kind = "wfr" -> VerdictTags(NoDup(r.p) /\ Closed(r.p) /\ WF(r.p), r) \cup DownTags(r)
                  [] r.kind = "pp" -> PrintTags(r)
                  [] OTHER -> {}
V == TLCEval([i \in 1..Len(Rec) |-> Tags(Rec[i])])
VARIABLES l
Init == l = 1
Next == /\ l <= Len(Rec)
        /\ \A t \in V[l] : PrintT(<<"MISMATCH", l, t>>)
        /\ l' = l + 1
Spec == Init /\ [][Next]_l
Post == PrintT(<<"CONSUMED", TLCGet("stats").diameter - 1, Len(Rec)>>)
====
