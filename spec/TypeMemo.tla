---- MODULE TypeMemo ----
\* C01 (history dimension): the thread-local memo behind CandidType::ty() as a state machine.
\* memo = the named Rust types that currently have a finished entry.  Deriving T enters T and
\* everything T mentions (recursive mentions inside an unfinished derivation become knots that
\* refer to the memo entry).  IDLBuilder::new() and env_clear() drop every entry at once.
\* Closed: every entry's knots resolve inside the memo - the condition under which a cached
\* shape denotes the declared type; the replay checks on the real thread-local state that after
\* every history each type still denotes its declared type and round-trips.
EXTENDS Naturals, Sequences, FiniteSets, TLC, Json
CONSTANT MaxLen
Tys == {"List", "Node", "Tree", "WList", "MapIntNat", "Bytes", "Expr", "MapTextList"}
Deps(t) == CASE t = "List" -> {"List"} [] t = "Node" -> {"Tree"} [] t = "Tree" -> {"Node"} [] t = "WList" -> {"List"}
             [] t = "Expr" -> {"Expr"} [] t = "MapTextList" -> {"List"} [] OTHER -> {}
RECURSIVE Closure(_)
Closure(S) == LET S2 == S \cup UNION {Deps(t) : t \in S} IN IF S2 = S THEN S ELSE Closure(S2)
VARIABLES memo, hist
vars == <<memo, hist>>
Init == memo = {} /\ hist = <<>>
Ty(t) == memo' = memo \cup Closure({t}) /\ hist' = Append(hist, <<"ty", t>>)
\* Encode! creates a builder (which clears the memo) and derives t; Decode! derives t again
Rt(t) == memo' = Closure({t}) /\ hist' = Append(hist, <<"rt", t>>)
NewBuilder == memo' = {} /\ hist' = Append(hist, <<"newbuilder", "-">>)
Clear == memo' = {} /\ hist' = Append(hist, <<"clear", "-">>)
Next == Len(hist) < MaxLen /\ ((\E t \in Tys : Ty(t) \/ Rt(t)) \/ NewBuilder \/ Clear)
Spec == Init /\ [][Next]_vars
Closed == \A t \in memo : Deps(t) \subseteq memo
Emit == Len(hist) = MaxLen => PrintT(<<"CASE", ToJson([hist |-> hist])>>)
====
