---- MODULE Wire ----
\* spec/Candid.md "Binary Format": an independent decoder (header + M^-1) written from the document.
EXTENDS Coerce, Leb128, Utf8
TId(i) == "t" \o ToString(i)
IdxRef(v) == IF v >= 0 THEN TId(v)
             ELSE IF v = -24 THEN "p_principal" ELSE PrimId(PrimNames[0 - v])
IdxValid(v, n) == (v >= 0 /\ v < n) \/ (v <= -1 /\ v >= -17) \/ v = -24

F == [ok |-> FALSE]
\* read one index type
RdIdx(b, p, n) ==
  LET g == LebGroups(b, p, <<>>) IN
  IF ~g.ok THEN F
  ELSE LET v == SmallSigned(g.gs) IN
       IF IdxValid(v, n) THEN [ok |-> TRUE, pos |-> g.pos, v |-> IdxRef(v)] ELSE F
RECURSIVE RdIdxs(_, _, _, _, _)
RdIdxs(b, p, n, cnt, acc) ==
  IF cnt = 0 THEN [ok |-> TRUE, pos |-> p, v |-> acc]
  ELSE IF p > Len(b) THEN F
  ELSE LET r == RdIdx(b, p, n) IN
       IF r.ok THEN RdIdxs(b, r.pos, n, cnt - 1, Append(acc, r.v)) ELSE F
RdCount(b, p) ==
  LET g == LebGroups(b, p, <<>>) IN
  IF ~g.ok THEN F ELSE [ok |-> TRUE, pos |-> g.pos, v |-> NatOfGroups(g.gs)]

RECURSIVE RdFields(_, _, _, _, _)
RdFields(b, p, n, cnt, acc) ==
  IF cnt = 0 THEN [ok |-> TRUE, pos |-> p, v |-> acc]
  ELSE IF p > Len(b) THEN F
  ELSE LET g == LebGroups(b, p, <<>>) IN
       IF ~g.ok THEN F
       ELSE LET id == U32OfGroups(g.gs) IN
            IF ~id.ok THEN F
            ELSE IF acc # <<>> /\ ~IdLess(acc[Len(acc)].id, id.v) THEN F
            ELSE LET r == RdIdx(b, g.pos, n) IN
                 IF r.ok THEN RdFields(b, r.pos, n, cnt - 1, Append(acc, [id |-> id.v, t |-> r.v])) ELSE F

RECURSIVE RdMeths(_, _, _, _, _)
RdMeths(b, p, n, cnt, acc) ==
  IF cnt = 0 THEN [ok |-> TRUE, pos |-> p, v |-> acc]
  ELSE IF p > Len(b) THEN F
  ELSE LET c == RdCount(b, p) IN
       IF ~c.ok \/ c.v = BIG \/ c.pos + c.v - 1 > Len(b) THEN F
       ELSE LET name == SubSeq(b, c.pos, c.pos + c.v - 1)
                u == Utf8Dec(b, c.pos, c.pos + c.v - 1, <<>>)
            IN IF ~u.ok THEN F
               ELSE IF acc # <<>> /\ ~SeqLess(acc[Len(acc)].name, name, 1) THEN F
               ELSE LET r == RdIdx(b, c.pos + c.v, n) IN
                    IF r.ok THEN RdMeths(b, r.pos, n, cnt - 1, Append(acc, [name |-> name, t |-> r.v])) ELSE F

RECURSIVE RdModes(_, _, _, _)
RdModes(b, p, cnt, acc) ==
  IF cnt = 0 THEN [ok |-> TRUE, pos |-> p, v |-> acc]
  ELSE IF p > Len(b) THEN F
  ELSE IF b[p] \notin {1, 2, 3} THEN F
  ELSE RdModes(b, p + 1, cnt - 1, Append(acc, CASE b[p] = 1 -> "query" [] b[p] = 2 -> "oneway" [] OTHER -> "composite_query"))

\* one table entry
RdEntry(b, p, n) ==
  LET g == LebGroups(b, p, <<>>) IN
  IF ~g.ok THEN F
  ELSE LET raw == SmallSigned(g.gs)
           \* interpretation ledger: the six constructor opcodes are the single bytes 0x6e..0x69 the
           \* spec lists next to each T(...) equation; a padded encoding of -18..-23 is not a constructor
           op == IF raw \in -23..-18 /\ Len(g.gs) # 1 THEN 0 ELSE raw IN
    CASE op = -18 \/ op = -19 ->
           LET r == RdIdx(b, g.pos, n) IN
           IF r.ok THEN [ok |-> TRUE, pos |-> r.pos, v |-> [k |-> IF op = -18 THEN "opt" ELSE "vec", a |-> r.v]] ELSE F
      [] op = -20 \/ op = -21 ->
           LET c == RdCount(b, g.pos) IN
           IF ~c.ok \/ c.v = BIG THEN F
           ELSE LET r == RdFields(b, c.pos, n, c.v, <<>>) IN
                IF r.ok THEN [ok |-> TRUE, pos |-> r.pos, v |-> [k |-> IF op = -20 THEN "record" ELSE "variant", fs |-> r.v]] ELSE F
      [] op = -22 ->
           LET c1 == RdCount(b, g.pos) IN
           IF ~c1.ok \/ c1.v = BIG THEN F
           ELSE LET a == RdIdxs(b, c1.pos, n, c1.v, <<>>) IN
           IF ~a.ok THEN F
           ELSE LET c2 == RdCount(b, a.pos) IN
           IF ~c2.ok \/ c2.v = BIG THEN F
           ELSE LET r == RdIdxs(b, c2.pos, n, c2.v, <<>>) IN
           IF ~r.ok THEN F
           ELSE IF r.pos > Len(b) THEN F
           ELSE LET cm == b[r.pos] IN      \* annotation count: a single byte, at most 1 (documented limit)
           IF cm > 1 THEN F
           ELSE LET m == RdModes(b, r.pos + 1, cm, <<>>) IN
           IF m.ok THEN [ok |-> TRUE, pos |-> m.pos, v |-> [k |-> "func", args |-> a.v, rets |-> r.v, modes |-> m.v]] ELSE F
      [] op = -23 ->
           LET c == RdCount(b, g.pos) IN
           IF ~c.ok \/ c.v = BIG THEN F
           ELSE LET r == RdMeths(b, c.pos, n, c.v, <<>>) IN
                IF r.ok THEN [ok |-> TRUE, pos |-> r.pos, v |-> [k |-> "service", ms |-> r.v]] ELSE F
      [] op < -24 ->
           LET c == RdCount(b, g.pos) IN
           IF ~c.ok \/ c.v = BIG \/ c.pos + c.v - 1 > Len(b) THEN F
           ELSE [ok |-> TRUE, pos |-> c.pos + c.v, v |-> [k |-> "future"]]
      [] OTHER -> F

RECURSIVE RdTable(_, _, _, _, _)
RdTable(b, p, n, i, acc) ==
  IF i = n THEN [ok |-> TRUE, pos |-> p, v |-> acc]
  ELSE IF p > Len(b) THEN F
  ELSE LET r == RdEntry(b, p, n) IN
       IF r.ok THEN RdTable(b, r.pos, n, i + 1, Append(acc, r.v)) ELSE F

\* documented deviation: the implementation replaces uninhabited recursive records of the WIRE table by empty
RECURSIVE EmptyGfp(_, _)
EmptyGfp(tenv, S) ==
  LET S2 == {t \in S : \E j \in DOMAIN tenv[t].fs : tenv[t].fs[j].t \in S}
  IN IF S2 = S THEN S ELSE EmptyGfp(tenv, S2)
ReplaceEmpty(tenv) ==
  LET E == EmptyGfp(tenv, {t \in DOMAIN tenv : tenv[t].k = "record"})
  IN [t \in DOMAIN tenv |-> IF t \in E THEN [k |-> "empty"] ELSE tenv[t]]

MaxTable == 10000
\* header: [ok, pos, env, args]
RdHeader(b) ==
  IF Len(b) < 4 \/ SubSeq(b, 1, 4) # <<68, 73, 68, 76>> THEN F
  ELSE LET c == RdCount(b, 5) IN
  IF ~c.ok \/ c.v > MaxTable THEN F
  ELSE LET t == RdTable(b, c.pos, c.v, 0, <<>>) IN
  IF ~t.ok THEN F
  ELSE LET tenv == [id \in {TId(i - 1) : i \in 1..c.v} |->
                      t.v[CHOOSE i \in 1..c.v : TId(i - 1) = id]]
           methOK == \A i \in 1..c.v : t.v[i].k = "service" =>
                        \A j \in DOMAIN t.v[i].ms :
                           LET r == t.v[i].ms[j].t IN r \in DOMAIN tenv /\ tenv[r].k = "func"
       IN IF ~methOK THEN F
          ELSE LET ac == RdCount(b, t.pos) IN
          IF ~ac.ok \/ ac.v = BIG THEN F
          ELSE LET a == RdIdxs(b, ac.pos, c.v, ac.v, <<>>) IN
               IF a.ok THEN [ok |-> TRUE, pos |-> a.pos, env |-> ReplaceEmpty(tenv) @@ PrimEnv, rawenv |-> tenv @@ PrimEnv, args |-> a.v] ELSE F

\* ------------------------------------------------------------------ binary format: values (M^-1)
Fuel == 1000       \* values the specification is willing to materialise per message (beyond: "bomb", not judged)
MaxDepth == 150
BOMB == [ok |-> FALSE, bomb |-> TRUE]
IsBomb(r) == "bomb" \in DOMAIN r

RdPrincipal(b, p) ==
  IF p > Len(b) \/ b[p] # 1 THEN F
  ELSE LET c == RdCount(b, p + 1) IN
       IF ~c.ok \/ c.v > 29 \/ c.pos + c.v - 1 > Len(b) THEN F
       ELSE [ok |-> TRUE, pos |-> c.pos + c.v, v |-> SubSeq(b, c.pos, c.pos + c.v - 1)]

RECURSIVE RdVal(_, _, _, _, _, _)
RECURSIVE RdVec(_, _, _, _, _, _, _, _)
RECURSIVE RdRec(_, _, _, _, _, _, _, _)
\* fl = remaining fuel (number of values we are still willing to materialise); result carries fl
OKP(p, v, fl) == [ok |-> TRUE, pos |-> p, v |-> v, fl |-> fl]
RdVal(e, b, p, t, d, fl0) ==
  LET x == N(e, t)
      fl == fl0 - 1 IN
  IF d > MaxDepth THEN BOMB       \* deeper than the specification follows (the implementation's limit is its stack guard): not judged
  ELSE IF fl0 <= 0 THEN BOMB
  ELSE CASE x.k \in {"null"} -> OKP(p, Null, fl)
    [] x.k = "reserved" -> OKP(p, Res, fl)
    [] x.k = "empty" -> F
    [] x.k = "bool" -> IF p <= Len(b) /\ b[p] \in {0, 1} THEN OKP(p + 1, [k |-> "bool", b |-> b[p]], fl) ELSE F
    [] x.k = "nat" -> LET g == LebGroups(b, p, <<>>) IN IF g.ok THEN OKP(g.pos, NumOfLeb(g.gs), fl) ELSE F
    [] x.k = "int" -> LET g == LebGroups(b, p, <<>>) IN IF g.ok THEN OKP(g.pos, NumOfSleb(g.gs), fl) ELSE F
    [] FixWidth(x.k) > 0 ->
         LET w == FixWidth(x.k) IN
         IF p + w - 1 <= Len(b) THEN OKP(p + w, [k |-> "fix", bytes |-> SubSeq(b, p, p + w - 1)], fl) ELSE F
    [] x.k = "text" ->
         LET c == RdCount(b, p) IN
         IF ~c.ok \/ c.v = BIG \/ c.pos + c.v - 1 > Len(b) THEN F
         ELSE LET u == Utf8Dec(b, c.pos, c.pos + c.v - 1, <<>>) IN
              IF u.ok THEN OKP(c.pos + c.v, [k |-> "text", cps |-> u.cps], fl) ELSE F
    [] x.k = "principal" ->
         LET r == RdPrincipal(b, p) IN IF r.ok THEN OKP(r.pos, [k |-> "principal", b |-> r.v], fl) ELSE F
    [] x.k = "service" ->
         LET r == RdPrincipal(b, p) IN IF r.ok THEN OKP(r.pos, [k |-> "service", b |-> r.v], fl) ELSE F
    [] x.k = "func" ->
         IF p > Len(b) \/ b[p] # 1 THEN F
         ELSE LET r == RdPrincipal(b, p + 1) IN
              IF ~r.ok THEN F
              ELSE LET c == RdCount(b, r.pos) IN
                   IF ~c.ok \/ c.v = BIG \/ c.pos + c.v - 1 > Len(b) THEN F
                   ELSE LET u == Utf8Dec(b, c.pos, c.pos + c.v - 1, <<>>) IN
                        IF u.ok THEN OKP(c.pos + c.v, [k |-> "func", b |-> r.v, m |-> SubSeq(b, c.pos, c.pos + c.v - 1)], fl) ELSE F
    [] x.k = "opt" ->
         IF p > Len(b) THEN F
         ELSE IF b[p] = 0 THEN OKP(p + 1, Null, fl)
         ELSE IF b[p] = 1 THEN LET r == RdVal(e, b, p + 1, x.a, d + 1, fl) IN
                               IF r.ok THEN OKP(r.pos, [k |-> "opt", v |-> r.v], r.fl) ELSE r
         ELSE F
    [] x.k = "vec" ->
         LET c == RdCount(b, p) IN
         IF ~c.ok THEN F
         ELSE IF c.v > fl THEN BOMB
         ELSE LET r == RdVec(e, b, c.pos, x.a, c.v, d + 1, <<>>, fl) IN
              IF r.ok THEN OKP(r.pos, [k |-> "vec", vs |-> r.v], r.fl) ELSE r
    [] x.k = "record" ->
         LET r == RdRec(e, b, p, x.fs, 1, d + 1, <<>>, fl) IN
         IF r.ok THEN OKP(r.pos, [k |-> "rec", fs |-> r.v], r.fl) ELSE r
    [] x.k = "variant" ->
         LET c == RdCount(b, p) IN
         IF ~c.ok \/ c.v >= Len(x.fs) THEN F
         ELSE LET f == x.fs[c.v + 1]
                  r == RdVal(e, b, c.pos, f.t, d + 1, fl) IN
              IF r.ok THEN OKP(r.pos, [k |-> "var", id |-> f.id, v |-> r.v], r.fl) ELSE r
    [] x.k = "future" ->
         LET c == RdCount(b, p) IN
         IF ~c.ok THEN F
         ELSE LET c2 == RdCount(b, c.pos) IN
              IF ~c2.ok \/ c.v = BIG \/ c2.pos + c.v - 1 > Len(b) THEN F
              ELSE OKP(c2.pos + c.v, [k |-> "future"], fl)
    [] OTHER -> F
RdVec(e, b, p, a, cnt, d, acc, fl) ==
  IF cnt = 0 THEN OKP(p, acc, fl)
  ELSE LET r == RdVal(e, b, p, a, d, fl) IN
       IF r.ok THEN RdVec(e, b, r.pos, a, cnt - 1, d, Append(acc, r.v), r.fl) ELSE r
RdRec(e, b, p, fs, j, d, acc, fl) ==
  IF j > Len(fs) THEN OKP(p, acc, fl)
  ELSE LET r == RdVal(e, b, p, fs[j].t, d, fl) IN
       IF r.ok THEN RdRec(e, b, r.pos, fs, j + 1, d, Append(acc, [id |-> fs[j].id, v |-> r.v]), r.fl) ELSE r

RECURSIVE RdArgs(_, _, _, _, _, _, _)
RdArgs(e, b, p, ts, i, acc, fl) ==
  IF i > Len(ts) THEN OKP(p, acc, fl)
  ELSE LET r == RdVal(e, b, p, ts[i], 0, fl) IN
       IF r.ok THEN RdArgs(e, b, r.pos, ts, i + 1, Append(acc, r.v), r.fl) ELSE r

\* full message: [ok, env, types, vals]
Parse(b) ==
  LET h == RdHeader(b) IN
  IF ~h.ok THEN F
  ELSE LET a == RdArgs(h.env, b, h.pos, h.args, 1, <<>>, Fuel) IN
       IF ~a.ok THEN a
       ELSE IF a.pos # Len(b) + 1 THEN F
       ELSE [ok |-> TRUE, env |-> h.env, types |-> h.args, vals |-> a.v]

\* variant of Parse that keeps the table exactly as written (used to judge the encoder)
ParseNoReplace(b) ==
  LET h0 == RdHeader(b) IN
  IF ~h0.ok THEN F
  ELSE LET a == RdArgs(h0.rawenv, b, h0.pos, h0.args, 1, <<>>, Fuel) IN
       IF ~a.ok THEN a
       ELSE IF a.pos # Len(b) + 1 THEN F
       ELSE [ok |-> TRUE, env |-> h0.rawenv, types |-> h0.args, vals |-> a.v]


\* decoding at expected types: eenv = expected-side environment, ets = expected type ids
Decode(b, eenv, ets) ==
  LET m == Parse(b) IN
  IF ~m.ok THEN m
  ELSE LET e == m.env @@ eenv
           S == IF HasRef(m.env) /\ HasRef(eenv) THEN SubFrom(e, RefNodes(m.env) \X RefNodes(eenv)) ELSE {}
       IN CoArgs(e, S, m.vals, m.types, ets, 1, <<>>)
\* the same without the replacement of uninhabited wire records by empty (used to attribute a
\* disagreement to that documented replacement)
DecodeNR(b, eenv, ets) ==
  LET m == ParseNoReplace(b) IN
  IF ~m.ok THEN m
  ELSE LET e == m.env @@ eenv
           S == IF HasRef(m.env) /\ HasRef(eenv) THEN SubFrom(e, RefNodes(m.env) \X RefNodes(eenv)) ELSE {}
       IN CoArgs(e, S, m.vals, m.types, ets, 1, <<>>)
====
