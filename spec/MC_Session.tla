---- MODULE MC_Session ----
\* The decoding session as a machine TLC explores: a message (0-2 arguments over a small universe,
\* encoded by the specification's encoder, exact / truncated / with a trailing byte / with a damaged
\* last byte) and every sequence of MaxOps operations on it.  Checked on the specification itself:
\*   Refines     a session whose first `done` succeeds after only successful gets  <=>  the declarative
\*               Decode(bytes, types asked for) succeeds, and then the values are the same (C02)
\*   AfterDone   once `done` has succeeded the session is exhausted: is_done, done again succeeds,
\*               further gets read the default of their type
\*   Forward     the read position and the argument index never move backwards
\* Every complete behaviour is emitted as a CASE and replayed on the real IDLDeserialize.
EXTENDS Session, Enc, Json
CONSTANTS Level, MaxOps
P(k) == PrimId(k)
Fd(i, t) == [id |-> <<0, i>>, t |-> t]
TEnv == [o |-> [k |-> "opt", a |-> P("nat")],
         ot |-> [k |-> "opt", a |-> P("text")],
         r |-> [k |-> "record", fs |-> <<Fd(0, P("nat")), Fd(1, "ot")>>],
         r2 |-> [k |-> "record", fs |-> <<Fd(0, P("int"))>>],
         v |-> [k |-> "variant", fs |-> <<Fd(0, P("null")), Fd(1, P("nat"))>>]] @@ PrimEnv
TextV == [k |-> "text", cps |-> <<97, 233>>]
A1 == {<<P("nat"), PNat(300)>>, <<"o", [k |-> "opt", v |-> PNat(300)] >>, <<P("text"), TextV>>}
A2 == A1 \cup {<<P("nat"), PNat(0)>>, <<P("null"), Null>>, <<P("reserved"), Res>>, <<"o", Null>>,
               <<"r", [k |-> "rec", fs |-> <<[id |-> <<0, 0>>, v |-> PNat(0)], [id |-> <<0, 1>>, v |-> [k |-> "opt", v |-> TextV]] >>] >>,
               <<P("bool"), [k |-> "bool", b |-> 1] >>, <<"v", [k |-> "var", id |-> <<0, 1>>, v |-> PNat(300)] >>}
ArgSeqs == {<<>>} \cup {<<a>> : a \in A2} \cup {<<a, c>> : a \in A2, c \in (IF Level = 1 THEN A1 ELSE A2)}
Variants == {"exact", "cut", "extra", "badlast"}
Bytes(as, var) ==
  LET ts == [i \in DOMAIN as |-> as[i][1]]
      vs == [i \in DOMAIN as |-> as[i][2]]
      b == EncB(TEnv, CanonOrd(TEnv, ts), ts, vs)
  IN CASE var = "exact" -> b
       [] var = "cut" -> SubSeq(b, 1, Len(b) - 1)
       [] var = "extra" -> b \o <<0>>
       [] var = "badlast" -> SubSeq(b, 1, Len(b) - 1) \o <<255>>
Get(t) == [op |-> "get", t |-> t]
Ops == {Get(P("nat")), Get(P("int")), Get("o"), Get(P("reserved")), Get("r2"), [op |-> "isdone", t |-> ""], [op |-> "done", t |-> ""]}
         \cup (IF Level = 1 THEN {} ELSE {Get(P("null")), Get("ot"), Get(P("text"))})

VARIABLES b, st, hist, outs
vars == <<b, st, hist, outs>>
Init == /\ \E as \in ArgSeqs, var \in Variants : b = Bytes(as, var)
        /\ st = SNew(b) /\ hist = <<>> /\ outs = <<>>
Next == /\ Len(hist) < MaxOps
        /\ \E o \in Ops : LET r == SStep(st, b, TEnv, o) IN
             st' = r.st /\ hist' = Append(hist, o) /\ outs' = Append(outs, r.out)
        /\ UNCHANGED b
Spec == Init /\ [][Next]_vars

IsOkOut(o) == "ok" \in DOMAIN o
FirstDone(k) == hist[k].op = "done" /\ \A j \in 1..(k - 1) : hist[j].op # "done"
GetIdx(k) == {j \in 1..(k - 1) : hist[j].op = "get"}
Refines ==
  \A k \in DOMAIN hist : FirstDone(k) =>
     LET gi == SetToSeq(GetIdx(k))          \* SetToSeq does not promise an order: sort
         idx == SortSeq(gi, <)
         ts == [n \in DOMAIN idx |-> hist[idx[n]].t]
         d == Decode(b, TEnv, ts)
     IN IF IsBomb(d) THEN TRUE
        ELSE /\ d.ok <=> (outs[k] = [done |-> 1] /\ \A j \in GetIdx(k) : IsOkOut(outs[j]))
             /\ d.ok => \A n \in DOMAIN idx : outs[idx[n]].ok = d.v[n]
AfterDone ==
  \A k \in DOMAIN hist : (FirstDone(k) /\ outs[k] = [done |-> 1]) =>
     \A j \in (k + 1)..Len(hist) :
        CASE hist[j].op = "isdone" -> outs[j] = [b |-> TRUE]
          [] hist[j].op = "done" -> outs[j] = [done |-> 1]
          [] OTHER -> outs[j] = DefaultAt(TEnv, hist[j].t)
Forward == [][(st.ph = "open" /\ st'.ph = "open") => (st'.pos >= st.pos /\ st'.i >= st.i)]_vars
Emit == Len(hist) = MaxOps =>
          PrintT(<<"CASE", ToJson([env |-> TEnv, bytes |-> b, ops |-> hist])>>)
====
