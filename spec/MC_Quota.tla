---- MODULE MC_Quota ----
\* C07, design level: the metering rule of the decoder (add_cost) as a state machine.  A decode is a
\* sequence of charges (c, untyped); two meters run the same sequence under quotas (d1,s1) <= (d2,s2).
\* Checked for every sequence and every quota pair of the bounded universe: success is monotone in
\* both quotas, the amount consumed on success does not depend on the quotas, a failed charge
\* consumes nothing and nothing is ever refunded (the remaining quota only decreases).
EXTENDS Naturals, Sequences, TLC
CONSTANTS MaxQ, MaxLen
Costs == {0, 1, 2}
Factor == 3            \* stands for the 50x penalty on skipped (untyped) values
VARIABLES d1, s1, d2, s2, a1, a2, n, q0
vars == <<d1, s1, d2, s2, a1, a2, n, q0>>
Init == /\ d1 \in 0..MaxQ /\ s1 \in 0..MaxQ /\ d2 \in d1..MaxQ /\ s2 \in s1..MaxQ
        /\ a1 = TRUE /\ a2 = TRUE /\ n = 0 /\ q0 = <<d1, s1, d2, s2>>
\* one charge on one meter: (alive, d, s) -> (alive', d', s')
Charge(alive, d, s, c, u) ==
  IF ~alive THEN <<FALSE, d, s>>
  ELSE LET dc == IF u THEN c * Factor ELSE c IN
       IF d < dc THEN <<FALSE, d, s>>
       ELSE IF u /\ s < dc THEN <<FALSE, d - dc, s>>       \* the decoding quota was already debited when the skipping check fails
       ELSE <<TRUE, d - dc, IF u THEN s - dc ELSE s>>
Step == /\ n < MaxLen
        /\ \E c \in Costs, u \in BOOLEAN :
             LET r1 == Charge(a1, d1, s1, c, u)
                 r2 == Charge(a2, d2, s2, c, u)
             IN /\ a1' = r1[1] /\ d1' = r1[2] /\ s1' = r1[3]
                /\ a2' = r2[1] /\ d2' = r2[2] /\ s2' = r2[3]
        /\ n' = n + 1 /\ UNCHANGED q0
Next == Step
Spec == Init /\ [][Next]_vars
Monotone == a1 => a2
CostIndependent == (a1 /\ a2) => (q0[1] - d1 = q0[3] - d2 /\ q0[2] - s1 = q0[4] - s2)
NeverRefunds == [][d1' <= d1 /\ s1' <= s1 /\ d2' <= d2 /\ s2' <= s2]_vars
====
