---- MODULE Trace_Quota ----
\* C07 referee: quota laws on recorded decodes of honest messages.
EXTENDS Wire, Cost, Json, IOUtils
Rec == ndJsonDeserialize(IOEnv.TRACE)
VARIABLES l
Init == l = 1
Bad(tag) == PrintT(<<"MISMATCH", l, tag>>)
IsOk(o) == "ok" \in DOMAIN o
IsQuota(o) == "quota" \in DOMAIN o
K == 3
Ge(a, b) == a = -1 \/ (b # -1 /\ a >= b)       \* -1 stands for "no quota"
QuotaCase(r) ==
  LET m == ParseNoReplace(r.blob)
      runs == r.runs
      okruns == {i \in DOMAIN runs : IsOk(runs[i])}
  IN
  /\ (IF IsOk(r.base) = IsOk(r.big) /\ (IsOk(r.base) => r.base.ok = r.big.ok) THEN TRUE ELSE Bad("result_changed_by_metering"))
  /\ \A i \in DOMAIN runs :
        IF IsQuota(runs[i]) THEN TRUE
        ELSE IF IsOk(r.base) THEN (IF IsOk(runs[i]) /\ runs[i].ok = r.base.ok THEN TRUE ELSE Bad("result_changed_by_metering"))
        ELSE (IF IsOk(runs[i]) THEN Bad("result_changed_by_metering") ELSE TRUE)
  /\ \A i \in okruns, j \in DOMAIN runs :
        (Ge(runs[j].d, runs[i].d) /\ Ge(runs[j].s, runs[i].s)) => (IF IsOk(runs[j]) THEN TRUE ELSE Bad("not_monotone"))
  /\ \A i \in okruns :
        /\ (IF runs[i].d # -1 /\ IsOk(r.big) THEN (IF runs[i].cd = r.big.cd THEN TRUE ELSE Bad("cost_depends_on_quota")) ELSE TRUE)
        /\ (IF runs[i].s # -1 /\ IsOk(r.big) THEN (IF runs[i].cs = r.big.cs THEN TRUE ELSE Bad("cost_depends_on_quota")) ELSE TRUE)
  /\ (IsOk(r.big) /\ m.ok) =>
        LET H == Len(r.blob) - Len(Cat([i \in DOMAIN m.types |-> EncM(m.env, m.vals[i], m.types[i])]))
            nv == NumValuesSeq(m.vals)
            cdoc == SumSeq([i \in DOMAIN m.types |-> CDoc(m.env, m.vals[i], m.types[i], H)], 1)
            \* the model charges the values on the wire and the fields of the value that is produced
            \* (fields only the expected type has are produced too)
            cres == SumSeq([i \in DOMAIN r.types |-> IF i <= Len(r.big.ok) THEN CDoc(r.env, r.big.ok[i], r.types[i], H) ELSE 0], 1)
            \* values read at `reserved` (and surplus values) are skipped values: 50x; the bound does not try to tell
            \* which native positions are skipped and allows the factor everywhere
            upper == 4 * H + 50 * (cdoc + cres)
        IN /\ (IF r.big.cd >= nv THEN TRUE ELSE Bad("cost_below_number_of_values"))
           /\ (IF r.big.cd <= K * upper THEN TRUE ELSE Bad("cost_above_documented_model"))
           /\ LET e == m.env @@ r.env
                  S == IF HasRef(m.env) /\ HasRef(r.env) THEN SubFrom(e, RefNodes(m.env) \X RefNodes(r.env)) ELSE {}
                  sk == SumSeq([i \in DOMAIN m.types |-> IF i <= Len(r.types) THEN NumSkipped(e, S, m.vals[i], m.types[i], r.types[i]) ELSE NumValues(m.vals[i])], 1)
              IN IF r.big.cs >= sk THEN TRUE ELSE Bad("skipped_not_charged_to_skipping_quota")
Next == /\ l <= Len(Rec)
        /\ LET r == Rec[l] IN
           IF "abort" \in DOMAIN r THEN Bad("abort")
           ELSE IF r.kind = "quota" THEN QuotaCase(r) ELSE TRUE
        /\ l' = l + 1
Spec == Init /\ [][Next]_l
Post == PrintT(<<"CONSUMED", TLCGet("stats").diameter - 1, Len(Rec)>>)
====
