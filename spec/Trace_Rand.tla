---- MODULE Trace_Rand ----
\* C20 referee.  One line = one call of candid_parser::random::any(seed, configuration, env, types).
\* An error is an allowed outcome; a returned list of values must inhabit the requested types (HasType), must come
\* back unchanged from annotate_types at those types, must encode at them, and owes
\* the configuration the laws of RandGen.tla (budget cut-off, widths, ranges, text kind).
EXTENDS RandGen, Json, IOUtils
Rec == ndJsonDeserialize(IOEnv.TRACE)
IsOk(o) == "ok" \in DOMAIN o
FUEL == 100000
RandCase(r) ==
  LET o == r.out IN
  IF "panic" \in DOMAIN o THEN {"panic"}
  ELSE IF "err" \in DOMAIN o THEN {}
  ELSE IF "big" \in DOMAIN o THEN (IF o.annsame = 1 THEN {} ELSE {"annotate_changes_or_rejects"}) \cup (IF o.encok = 1 THEN {} ELSE {"does_not_encode"})
  ELSE LET E == [g |-> r.env, defs |-> SeqSet(r.defs)]
           vs == o.ok
           n == Len(r.types)
           typed == Len(vs) = n /\ \A i \in 1..n : HasType(r.env, vs[i], r.types[i], FUEL)
       IN IF ~typed THEN {"not_an_inhabitant"}
          ELSE (IF IsOk(r.ann) /\ r.ann.ok = vs THEN {} ELSE IF IsOk(r.ann) THEN {"annotate_changes_value"} ELSE {"annotate_rejects"})
               \cup (IF IsOk(r.enc) \/ "derr" \in DOMAIN r.enc THEN {} ELSE {"does_not_encode"})   \* reading the bytes back is C10's business
               \cup UNION {Laws(E, r.cfg, vs[i], r.types[i], RootCfg(r.cfg), {}) : i \in 1..n}
Tags(r) == IF "abort" \in DOMAIN r THEN {"abort"} ELSE IF r.kind = "rand" THEN RandCase(r) ELSE {}
V == TLCEval([i \in 1..Len(Rec) |-> Tags(Rec[i])])
VARIABLES l
Init == l = 1
Next == /\ l <= Len(Rec)
        /\ \A t \in V[l] : PrintT(<<"MISMATCH", l, t>>)
        /\ l' = l + 1
Spec == Init /\ [][Next]_l
Post == PrintT(<<"CONSUMED", TLCGet("stats").diameter - 1, Len(Rec)>>)
====
