---- MODULE ValueText ----
\* The textual value grammar of spec/Candid.md ("Values": <val>, <annval>, shorthands) read from
\* code points by a tokeniser (string literals per TextLit rules: utf8 | \xx | \n\r\t\\\"\' | \u{hex})
\* and a recursive-descent parser into abstract values.  Independent of the crate's lexer/parser.
EXTENDS Values, Hash, Crc32Base32
\* ------------------------------------------------------------------ characters
IsWs(c) == c \in {32, 9, 10, 13}
IsDigit(c) == c >= 48 /\ c <= 57
IsHex(c) == IsDigit(c) \/ (c >= 65 /\ c <= 70) \/ (c >= 97 /\ c <= 102)
HexVal(c) == IF c <= 57 THEN c - 48 ELSE IF c <= 70 THEN c - 55 ELSE c - 87
IsIdStart(c) == (c >= 65 /\ c <= 90) \/ (c >= 97 /\ c <= 122) \/ c = 95
IsIdChar(c) == IsIdStart(c) \/ IsDigit(c)
Esc(c) == CASE c = 110 -> 10 [] c = 114 -> 13 [] c = 116 -> 9 [] c = 92 -> 92 [] c = 34 -> 34 [] c = 39 -> 39 [] OTHER -> -1
Str(cs) == cs      \* identifiers are kept as code point sequences
\* ------------------------------------------------------------------ string literal: [ok, pos (after closing quote), bytes]
RECURSIVE HexNum(_, _, _, _)
HexNum(s, p, acc, nd) ==
  IF p > Len(s) THEN [ok |-> FALSE]
  ELSE IF s[p] = 125 THEN (IF nd > 0 THEN [ok |-> TRUE, pos |-> p + 1, v |-> acc] ELSE [ok |-> FALSE])
  ELSE IF s[p] = 95 /\ nd > 0 THEN HexNum(s, p + 1, acc, nd)
  ELSE IF IsHex(s[p]) THEN HexNum(s, p + 1, IF acc > 1114111 THEN acc ELSE acc * 16 + HexVal(s[p]), nd + 1)
  ELSE [ok |-> FALSE]
RECURSIVE Lit(_, _, _)
Lit(s, p, acc) ==
  IF p > Len(s) THEN [ok |-> FALSE]
  ELSE IF s[p] = 34 THEN [ok |-> TRUE, pos |-> p + 1, bytes |-> acc]
  ELSE IF s[p] # 92 THEN (IF IsScalar(s[p]) THEN Lit(s, p + 1, acc \o EncCp(s[p])) ELSE [ok |-> FALSE])
  ELSE IF p + 1 > Len(s) THEN [ok |-> FALSE]
  ELSE IF p + 2 <= Len(s) /\ IsHex(s[p+1]) /\ IsHex(s[p+2]) THEN Lit(s, p + 3, Append(acc, HexVal(s[p+1]) * 16 + HexVal(s[p+2])))
  ELSE IF s[p+1] = 117 /\ p + 2 <= Len(s) /\ s[p+2] = 123 THEN
         LET h == HexNum(s, p + 3, 0, 0) IN
         IF h.ok /\ IsScalar(h.v) THEN Lit(s, h.pos, acc \o EncCp(h.v)) ELSE [ok |-> FALSE]
  ELSE IF Esc(s[p+1]) >= 0 THEN Lit(s, p + 2, Append(acc, Esc(s[p+1])))
  ELSE [ok |-> FALSE]
\* ------------------------------------------------------------------ tokens
\* [t |-> "p", c] punctuation | [t |-> "id", s] | [t |-> "str", bytes] | [t |-> "num", neg, bits, signed] | [t |-> "float"]
RECURSIVE MulAddBits(_, _, _, _)
MulAddBits(bs, i, m, carry) ==     \* bs * m + carry  (LSB first)
  IF i > Len(bs) THEN (IF carry = 0 THEN <<>> ELSE <<carry % 2>> \o MulAddBits(bs, i, m, carry \div 2))
  ELSE LET v == bs[i] * m + carry IN <<v % 2>> \o MulAddBits(bs, i + 1, m, v \div 2)
RECURSIVE Digits(_, _, _, _, _)
\* reads digits (with '_' separators) in the given base; [pos, bits, n]
Digits(s, p, base, acc, n) ==
  IF p <= Len(s) /\ s[p] = 95 /\ n > 0 THEN Digits(s, p + 1, base, acc, n)
  ELSE IF p <= Len(s) /\ ((base = 10 /\ IsDigit(s[p])) \/ (base = 16 /\ IsHex(s[p])))
       THEN Digits(s, p + 1, base, MulAddBits(acc, 1, base, HexVal(s[p])), n + 1)
  ELSE [pos |-> p, bits |-> Trim(acc), n |-> n]
RECURSIVE SkipDigits(_, _)
SkipDigits(s, p) == IF p <= Len(s) /\ (IsDigit(s[p]) \/ s[p] = 95) THEN SkipDigits(s, p + 1) ELSE p
NumTok(s, p) ==
  LET sgn == IF s[p] \in {43, 45} THEN 1 ELSE 0
      q == p + sgn
      hex == q + 1 <= Len(s) /\ s[q] = 48 /\ s[q+1] = 120
      e == SkipDigits(s, q)        \* end of the leading decimal digits
  IN IF ~hex /\ e > q /\ e <= Len(s) /\ s[e] \in {46, 101, 69}
     THEN \* float literal: digits '.' digits? exponent?  (its value is not computed: floats are compared by width only)
          LET a == IF s[e] = 46 THEN SkipDigits(s, e + 1) ELSE e
              b == IF a <= Len(s) /\ s[a] \in {101, 69}
                   THEN SkipDigits(s, IF a + 1 <= Len(s) /\ s[a+1] \in {43, 45} THEN a + 2 ELSE a + 1) ELSE a
          IN [ok |-> TRUE, pos |-> b, tok |-> [t |-> "float"]]
     ELSE LET d == IF hex THEN Digits(s, q + 2, 16, <<>>, 0) ELSE Digits(s, q, 10, <<>>, 0) IN
          IF d.n = 0 THEN [ok |-> FALSE]
          ELSE [ok |-> TRUE, pos |-> d.pos, tok |-> [t |-> "num", neg |-> (sgn = 1 /\ s[p] = 45 /\ d.bits # <<>>), bits |-> d.bits, signed |-> (sgn = 1)]]
RECURSIVE IdEnd(_, _)
IdEnd(s, p) == IF p <= Len(s) /\ IsIdChar(s[p]) THEN IdEnd(s, p + 1) ELSE p
RECURSIVE Toks(_, _, _)
Toks(s, p, acc) ==
  IF p > Len(s) THEN [ok |-> TRUE, toks |-> acc]
  ELSE LET c == s[p] IN
    IF IsWs(c) THEN Toks(s, p + 1, acc)
    ELSE IF c \in {40, 41, 123, 125, 59, 44, 61, 58, 46} THEN Toks(s, p + 1, Append(acc, [t |-> "p", c |-> c]))
    ELSE IF c = 34 THEN LET l == Lit(s, p + 1, <<>>) IN IF l.ok THEN Toks(s, l.pos, Append(acc, [t |-> "str", bytes |-> l.bytes])) ELSE [ok |-> FALSE]
    ELSE IF IsDigit(c) \/ (c \in {43, 45} /\ p + 1 <= Len(s) /\ IsDigit(s[p+1]))
         THEN LET n == NumTok(s, p) IN IF n.ok THEN Toks(s, n.pos, Append(acc, n.tok)) ELSE [ok |-> FALSE]
    ELSE IF IsIdStart(c) THEN LET e == IdEnd(s, p) IN Toks(s, e, Append(acc, [t |-> "id", s |-> SubSeq(s, p, e - 1)]))
    ELSE [ok |-> FALSE]
\* ------------------------------------------------------------------ parser over tokens
A(str) == str            \* identifiers below are written as code point tuples
KW_true == <<116,114,117,101>>  KW_false == <<102,97,108,115,101>>  KW_null == <<110,117,108,108>>
KW_opt == <<111,112,116>>  KW_vec == <<118,101,99>>  KW_record == <<114,101,99,111,114,100>>  KW_variant == <<118,97,114,105,97,110,116>>
KW_blob == <<98,108,111,98>>  KW_principal == <<112,114,105,110,99,105,112,97,108>>  KW_service == <<115,101,114,118,105,99,101>>  KW_func == <<102,117,110,99>>
KW_reserved == <<114,101,115,101,114,118,101,100>>  KW_nat == <<110,97,116>>  KW_int == <<105,110,116>>  KW_float == <<102,108,111,97,116>>
KW_text == <<116,101,120,116>>  KW_bool == <<98,111,111,108>>  KW_empty == <<101,109,112,116,121>>
PF == [ok |-> FALSE]
IsP(ts, p, c) == p <= Len(ts) /\ ts[p].t = "p" /\ ts[p].c = c
IsId(ts, p, kw) == p <= Len(ts) /\ ts[p].t = "id" /\ ts[p].s = kw
RECURSIVE DecNat(_, _, _)
DecNat(s, i, acc) == IF i > Len(s) THEN acc ELSE IF ~IsDigit(s[i]) \/ acc > 100 THEN -1 ELSE DecNat(s, i + 1, acc * 10 + (s[i] - 48))
\* a simple type annotation: [ok, pos, k (prim kind as code points), w (bit width or 0)]
AnnTy(ts, p) ==
  IF p > Len(ts) \/ ts[p].t # "id" THEN PF
  ELSE LET s == ts[p].s IN
       IF s \in {KW_nat, KW_int, KW_null, KW_reserved, KW_text, KW_bool, KW_principal, KW_empty} THEN [ok |-> TRUE, pos |-> p + 1, k |-> s, w |-> 0]
       ELSE IF Len(s) > 3 /\ SubSeq(s, 1, 3) \in {KW_nat, KW_int} /\ DecNat(s, 4, 0) \in {8, 16, 32, 64} THEN [ok |-> TRUE, pos |-> p + 1, k |-> SubSeq(s, 1, 3), w |-> DecNat(s, 4, 0)]
       ELSE IF Len(s) > 5 /\ SubSeq(s, 1, 5) = KW_float /\ DecNat(s, 6, 0) \in {32, 64} THEN [ok |-> TRUE, pos |-> p + 1, k |-> KW_float, w |-> DecNat(s, 6, 0)]
       ELSE PF
FixOf(num, w) ==     \* little-endian two's complement on w bits
  LET word == IF ~num.neg THEN PadTo(num.bits, w) ELSE AddOneW(Invert(PadTo(num.bits, w)), 1)
  IN [k |-> "fix", bytes |-> [i \in 1..(w \div 8) |-> BitsVal(word, 8 * (i - 1) + 1, 8 * i)]]
FitsFix(num, k, w) == IF k = KW_nat THEN ~num.neg /\ Len(num.bits) <= w
                      ELSE IF num.neg THEN Len(num.bits) <= w - 1 \/ (Len(num.bits) = w /\ \A i \in 1..(w-1) : num.bits[i] = 0) ELSE Len(num.bits) <= w - 1
\* apply an annotation to a parsed value
Annotate(v, a) ==
  IF v.k = "num" THEN
       IF a.w = 0 /\ a.k = KW_nat THEN (IF v.neg \/ v.signed THEN PF ELSE [ok |-> TRUE, v |-> Num(FALSE, v.bits)])
       ELSE IF a.w = 0 /\ a.k = KW_int THEN [ok |-> TRUE, v |-> Num(v.neg, v.bits)]
       ELSE IF a.k \in {KW_nat, KW_int} /\ a.w > 0 /\ FitsFix(v, a.k, a.w) THEN [ok |-> TRUE, v |-> FixOf(v, a.w)]
       ELSE IF a.k = KW_float THEN [ok |-> TRUE, v |-> [k |-> "floatlit", w |-> a.w]]
       ELSE PF
  ELSE IF v.k = "floatlit" THEN (IF a.k = KW_float THEN [ok |-> TRUE, v |-> [k |-> "floatlit", w |-> a.w]] ELSE PF)
  ELSE IF v.k = "null" THEN (IF a.k = KW_reserved THEN [ok |-> TRUE, v |-> Res] ELSE IF a.k = KW_null THEN [ok |-> TRUE, v |-> Null] ELSE PF)
  ELSE [ok |-> TRUE, v |-> v]      \* other annotations (text, bool, principal ...) do not change the abstract value
RECURSIVE InsertField(_, _)
InsertField(fs, f) == IF fs = <<>> THEN <<f>> ELSE IF IdLess(f.id, fs[1].id) THEN <<f>> \o fs ELSE <<fs[1]>> \o InsertField(Tail(fs), f)
RECURSIVE SortFields(_)
SortFields(fs) == IF fs = <<>> THEN <<>> ELSE InsertField(SortFields(Tail(fs)), fs[1])
DupIds(fs) == \E i, j \in DOMAIN fs : i # j /\ fs[i].id = fs[j].id
\* label: id token (name) | str token | number -> u32 <<hi,lo>>
LabelAt(ts, p) ==
  IF p > Len(ts) THEN PF
  ELSE IF ts[p].t = "id" THEN [ok |-> TRUE, pos |-> p + 1, id |-> IdlHash(ts[p].s)]       \* identifiers are ASCII: code points = bytes
  ELSE IF ts[p].t = "str" THEN (IF Utf8All(ts[p].bytes).ok THEN [ok |-> TRUE, pos |-> p + 1, id |-> IdlHash(ts[p].bytes)] ELSE PF)
  ELSE IF ts[p].t = "num" /\ ~ts[p].signed /\ Len(ts[p].bits) <= 32 THEN [ok |-> TRUE, pos |-> p + 1, id |-> <<BitsVal(ts[p].bits, 17, 32), BitsVal(ts[p].bits, 1, 16)>>]
  ELSE PF
PrincipalOf(bytes) == LET u == Utf8All(bytes) IN IF ~u.ok THEN PF ELSE LET a == Accept(u.cps) IN IF a.ok THEN [ok |-> TRUE, b |-> a.bytes] ELSE PF
RECURSIVE PVal(_, _, _)
RECURSIVE PAnn(_, _, _)
RECURSIVE PSeq(_, _, _, _, _)
RECURSIVE PFields(_, _, _, _, _)
\* d = depth budget
PAnn(ts, p, d) ==
  LET r == PVal(ts, p, d) IN
  IF ~r.ok THEN PF
  ELSE IF IsP(ts, r.pos, 58)
       THEN LET a == AnnTy(ts, r.pos + 1) IN
            IF ~a.ok THEN PF ELSE LET x == Annotate(r.v, a) IN IF x.ok THEN [ok |-> TRUE, pos |-> a.pos, v |-> x.v] ELSE PF
       ELSE IF r.v.k = "num" THEN [ok |-> TRUE, pos |-> r.pos, v |-> Num(r.v.neg, r.v.bits)]
       ELSE r
\* sequence of annotated values separated by sep until the closing token `close`
PSeq(ts, p, d, seps, acc) ==
  IF IsP(ts, p, seps[2]) THEN [ok |-> TRUE, pos |-> p + 1, vs |-> acc]
  ELSE LET r == PAnn(ts, p, d) IN
       IF ~r.ok THEN PF
       ELSE IF IsP(ts, r.pos, seps[1]) THEN PSeq(ts, r.pos + 1, d, seps, Append(acc, r.v))
       ELSE IF IsP(ts, r.pos, seps[2]) THEN [ok |-> TRUE, pos |-> r.pos + 1, vs |-> Append(acc, r.v)]
       ELSE PF
\* record fields: `label = v` or positional `v`; n = next positional index
PFields(ts, p, d, n, acc) ==
  IF IsP(ts, p, 125) THEN [ok |-> TRUE, pos |-> p + 1, fs |-> acc]
  ELSE LET lab == LabelAt(ts, p)
           named == lab.ok /\ IsP(ts, lab.pos, 61)
           r == IF named THEN PAnn(ts, lab.pos + 1, d) ELSE PAnn(ts, p, d)
           id == IF named THEN lab.id ELSE <<n \div 65536, n % 65536>>
       IN IF ~r.ok THEN PF
          ELSE LET acc2 == Append(acc, [id |-> id, v |-> r.v]) IN
               IF IsP(ts, r.pos, 59) THEN PFields(ts, r.pos + 1, d, n + 1, acc2)
               ELSE IF IsP(ts, r.pos, 125) THEN [ok |-> TRUE, pos |-> r.pos + 1, fs |-> acc2]
               ELSE PF
PVal(ts, p, d) ==
  IF p > Len(ts) \/ d = 0 THEN PF
  ELSE LET t == ts[p] IN
    IF t.t = "num" THEN [ok |-> TRUE, pos |-> p + 1, v |-> [k |-> "num", neg |-> t.neg, bits |-> t.bits, signed |-> t.signed]]
    ELSE IF t.t = "float" THEN [ok |-> TRUE, pos |-> p + 1, v |-> [k |-> "floatlit", w |-> 64]]
    ELSE IF t.t = "str" THEN LET u == Utf8All(t.bytes) IN IF u.ok THEN [ok |-> TRUE, pos |-> p + 1, v |-> [k |-> "text", cps |-> u.cps]] ELSE PF
    ELSE IF IsP(ts, p, 40) THEN LET r == PAnn(ts, p + 1, d - 1) IN IF r.ok /\ IsP(ts, r.pos, 41) THEN [ok |-> TRUE, pos |-> r.pos + 1, v |-> r.v] ELSE PF
    ELSE IF t.t # "id" THEN PF
    ELSE IF t.s = KW_true THEN [ok |-> TRUE, pos |-> p + 1, v |-> [k |-> "bool", b |-> 1]]
    ELSE IF t.s = KW_false THEN [ok |-> TRUE, pos |-> p + 1, v |-> [k |-> "bool", b |-> 0]]
    ELSE IF t.s = KW_null THEN [ok |-> TRUE, pos |-> p + 1, v |-> Null]
    ELSE IF t.s = KW_opt THEN LET r == PVal(ts, p + 1, d - 1) IN
                              IF ~r.ok THEN PF ELSE [ok |-> TRUE, pos |-> r.pos, v |-> [k |-> "opt", v |-> IF r.v.k = "num" THEN Num(r.v.neg, r.v.bits) ELSE r.v]]
    ELSE IF t.s = KW_vec THEN (IF IsP(ts, p + 1, 123) THEN LET r == PSeq(ts, p + 2, d - 1, <<59, 125>>, <<>>) IN IF r.ok THEN [ok |-> TRUE, pos |-> r.pos, v |-> [k |-> "vec", vs |-> r.vs]] ELSE PF ELSE PF)
    ELSE IF t.s = KW_blob THEN (IF p + 1 <= Len(ts) /\ ts[p+1].t = "str" THEN [ok |-> TRUE, pos |-> p + 2, v |-> [k |-> "vec", vs |-> [i \in DOMAIN ts[p+1].bytes |-> [k |-> "fix", bytes |-> <<ts[p+1].bytes[i]>>]]]] ELSE PF)
    ELSE IF t.s = KW_record THEN (IF IsP(ts, p + 1, 123) THEN LET r == PFields(ts, p + 2, d - 1, 0, <<>>) IN IF r.ok /\ ~DupIds(r.fs) THEN [ok |-> TRUE, pos |-> r.pos, v |-> [k |-> "rec", fs |-> SortFields(r.fs)]] ELSE PF ELSE PF)
    ELSE IF t.s = KW_variant THEN
         (IF ~IsP(ts, p + 1, 123) THEN PF
          ELSE LET lab == LabelAt(ts, p + 2) IN
               IF ~lab.ok THEN PF
               ELSE IF IsP(ts, lab.pos, 61)
                    THEN LET r == PAnn(ts, lab.pos + 1, d - 1) IN
                         IF r.ok /\ (IsP(ts, r.pos, 125) \/ (IsP(ts, r.pos, 59) /\ IsP(ts, r.pos + 1, 125)))
                         THEN [ok |-> TRUE, pos |-> IF IsP(ts, r.pos, 125) THEN r.pos + 1 ELSE r.pos + 2, v |-> [k |-> "var", id |-> lab.id, v |-> r.v]] ELSE PF
                    ELSE IF IsP(ts, lab.pos, 125) THEN [ok |-> TRUE, pos |-> lab.pos + 1, v |-> [k |-> "var", id |-> lab.id, v |-> Null]]
                    ELSE IF IsP(ts, lab.pos, 59) /\ IsP(ts, lab.pos + 1, 125) THEN [ok |-> TRUE, pos |-> lab.pos + 2, v |-> [k |-> "var", id |-> lab.id, v |-> Null]]
                    ELSE PF)
    ELSE IF t.s \in {KW_principal, KW_service} THEN
         (IF p + 1 <= Len(ts) /\ ts[p+1].t = "str" THEN LET pr == PrincipalOf(ts[p+1].bytes) IN
               IF pr.ok THEN [ok |-> TRUE, pos |-> p + 2, v |-> [k |-> IF t.s = KW_principal THEN "principal" ELSE "service", b |-> pr.b]] ELSE PF
          ELSE PF)
    ELSE IF t.s = KW_func THEN
         (IF p + 3 <= Len(ts) /\ ts[p+1].t = "str" /\ IsP(ts, p + 2, 46) /\ ts[p+3].t \in {"id", "str"}
          THEN LET pr == PrincipalOf(ts[p+1].bytes)
                   m == IF ts[p+3].t = "id" THEN ts[p+3].s ELSE ts[p+3].bytes
               IN IF pr.ok /\ Utf8All(m).ok THEN [ok |-> TRUE, pos |-> p + 4, v |-> [k |-> "func", b |-> pr.b, m |-> m]] ELSE PF
          ELSE PF)
    ELSE PF
\* <args> ::= ( <annval>,* )
ReadArgs(cps) ==
  LET tk == Toks(cps, 1, <<>>) IN
  IF ~tk.ok THEN [ok |-> FALSE, why |-> "lexical"]
  ELSE IF ~IsP(tk.toks, 1, 40) THEN [ok |-> FALSE, why |-> "shape"]
  ELSE LET r == PSeq(tk.toks, 2, 200, <<44, 41>>, <<>>) IN
       IF r.ok /\ r.pos = Len(tk.toks) + 1 THEN [ok |-> TRUE, vs |-> r.vs] ELSE [ok |-> FALSE, why |-> "syntax"]
\* what the text denotes vs. an abstract value (float literals match any float of their width)
RECURSIVE Denotes(_, _)
Denotes(s, v) ==
  IF s.k = "floatlit" THEN v.k = "fix" /\ Len(v.bytes) = s.w \div 8
  ELSE IF s.k # v.k THEN FALSE
  ELSE CASE s.k = "opt" -> Denotes(s.v, v.v)
         [] s.k = "vec" -> Len(s.vs) = Len(v.vs) /\ \A i \in DOMAIN s.vs : Denotes(s.vs[i], v.vs[i])
         [] s.k = "rec" -> Len(s.fs) = Len(v.fs) /\ \A i \in DOMAIN s.fs : s.fs[i].id = v.fs[i].id /\ Denotes(s.fs[i].v, v.fs[i].v)
         [] s.k = "var" -> s.id = v.id /\ Denotes(s.v, v.v)
         [] OTHER -> s = v
====
