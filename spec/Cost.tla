---- MODULE Cost ----
\* The cost model documented with DecoderConfig::set_decoding_quota (de.rs), and value counts.
EXTENDS Values, Enc
RECURSIVE NumValues(_)
RECURSIVE SumSeq(_, _)
SumSeq(s, i) == IF i > Len(s) THEN 0 ELSE s[i] + SumSeq(s, i + 1)
NumValues(v) ==
  1 + CASE v.k = "opt" -> NumValues(v.v)
        [] v.k = "vec" -> SumSeq([i \in DOMAIN v.vs |-> NumValues(v.vs[i])], 1)
        [] v.k = "rec" -> SumSeq([i \in DOMAIN v.fs |-> NumValues(v.fs[i].v)], 1)
        [] v.k = "var" -> NumValues(v.v)
        [] OTHER -> 0
NumValuesSeq(vs) == SumSeq([i \in DOMAIN vs |-> NumValues(vs[i])], 1)
\* number of wire value nodes that decoding v : t at t2 does not materialise (they are skipped):
\* everything read at reserved, the payload of an option whose coercion fails, surplus record fields
RECURSIVE NumSkipped(_, _, _, _, _)
NumSkipped(e, S, v, t, t2) ==
  LET x == N(e, t)
      y == N(e, t2)
  IN CASE y.k = "reserved" -> IF x.k = "reserved" THEN 0 ELSE NumValues(v)
       [] y.k = "opt" ->
            IF x.k \in {"null", "reserved"} THEN 0
            ELSE IF x.k = "opt" THEN (IF v.k = "null" THEN 0
                                     ELSE IF Co(e, S, v.v, x.a, y.a).ok THEN NumSkipped(e, S, v.v, x.a, y.a) ELSE NumValues(v.v))
            ELSE IF Co(e, S, v, t, y.a).ok THEN NumSkipped(e, S, v, t, y.a) ELSE NumValues(v)
       [] x.k = "vec" /\ y.k = "vec" -> SumSeq([i \in DOMAIN v.vs |-> NumSkipped(e, S, v.vs[i], x.a, y.a)], 1)
       [] x.k = "record" /\ y.k = "record" ->
            SumSeq([j \in DOMAIN x.fs |-> IF x.fs[j].id \in FieldIds(y.fs) THEN NumSkipped(e, S, v.fs[j].v, x.fs[j].t, FieldTy(y.fs, x.fs[j].id)) ELSE NumValues(v.fs[j].v)], 1)
       [] x.k = "variant" /\ y.k = "variant" /\ v.id \in FieldIds(y.fs) -> NumSkipped(e, S, v.v, FieldTy(x.fs, v.id), FieldTy(y.fs, v.id))
       [] OTHER -> 0
Max2(a, b) == IF a > b THEN a ELSE b
\* C(v : t); H = header length in bytes (|type table| in the reference rules); labels are charged |k| <= 5
RECURSIVE CDoc(_, _, _, _)
CDoc(e, v, t, H) ==
  LET x == N(e, t) IN
  CASE x.k = "nat" -> Len(MinLeb(v.bits))
    [] x.k = "int" -> Len(MinSleb(v))
    [] FixWidth(x.k) > 0 -> FixWidth(x.k)
    [] x.k = "bool" -> 1
    [] x.k = "text" -> 1 + Len(Utf8Enc(v.cps))
    [] x.k \in {"null", "reserved"} -> 1
    [] x.k = "principal" -> Max2(30, Len(v.b))
    [] x.k = "service" -> 2 + Max2(30, Len(v.b)) + H
    [] x.k = "func" -> 2 + Max2(30, Len(v.b)) + 1 + Len(v.m) + H
    [] x.k = "opt" -> IF v.k = "null" THEN 2 ELSE 2 + CDoc(e, v.v, x.a, H)
    [] x.k = "vec" -> 2 + 3 * Len(v.vs) + SumSeq([i \in DOMAIN v.vs |-> CDoc(e, v.vs[i], x.a, H)], 1)
    [] x.k = "record" -> 2 + SumSeq([j \in DOMAIN x.fs |-> 7 + 5 + CDoc(e, v.fs[j].v, x.fs[j].t, H)], 1)
    [] x.k = "variant" -> 2 + 5 + 5 + CDoc(e, v.v, FieldTy(x.fs, v.id), H)
    [] OTHER -> 1
====
