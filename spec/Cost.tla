---- MODULE Cost ----
\* The cost model documented with DecoderConfig::set_decoding_quota (de.rs), and value counts.
EXTENDS Values, Enc
RECURSIVE NumValues(_)
RECURSIVE SumSeq(_, _)
SumSeq(s, i) == IF i > Len(s) THEN 0 ELSE s[i] + SumSeq(s, i + 1)
NumValues(v) ==
  1 + CASE v.k = "opt" -> NumValues(v.v)
        [] v.k = "vec" -> SumSeq([i \in DOMAIN v.vs |-> NumValues(v.vs[i])], 1)
        [] v.k = "rec" -> SumSeq([i \in DOMAIN v.fs |-> NumValues(v.fs[i].v)], 1)
        [] v.k = "var" -> NumValues(v.v)
        [] OTHER -> 0
NumValuesSeq(vs) == SumSeq([i \in DOMAIN vs |-> NumValues(vs[i])], 1)
Max2(a, b) == IF a > b THEN a ELSE b
\* C(v : t); H = header length in bytes (|type table| in the reference rules); labels are charged |k| <= 5
RECURSIVE CDoc(_, _, _, _)
CDoc(e, v, t, H) ==
  LET x == N(e, t) IN
  CASE x.k = "nat" -> Len(MinLeb(v.bits))
    [] x.k = "int" -> Len(MinSleb(v))
    [] FixWidth(x.k) > 0 -> FixWidth(x.k)
    [] x.k = "bool" -> 1
    [] x.k = "text" -> 1 + Len(Utf8Enc(v.cps))
    [] x.k \in {"null", "reserved"} -> 1
    [] x.k = "principal" -> Max2(30, Len(v.b))
    [] x.k = "service" -> 2 + Max2(30, Len(v.b)) + H
    [] x.k = "func" -> 2 + Max2(30, Len(v.b)) + 1 + Len(v.m) + H
    [] x.k = "opt" -> IF v.k = "null" THEN 2 ELSE 2 + CDoc(e, v.v, x.a, H)
    [] x.k = "vec" -> 2 + 3 * Len(v.vs) + SumSeq([i \in DOMAIN v.vs |-> CDoc(e, v.vs[i], x.a, H)], 1)
    [] x.k = "record" -> 2 + SumSeq([j \in DOMAIN x.fs |-> 7 + 5 + CDoc(e, v.fs[j].v, x.fs[j].t, H)], 1)
    [] x.k = "variant" -> 2 + 5 + 5 + CDoc(e, v.v, FieldTy(x.fs, v.id), H)
    [] OTHER -> 1
====
