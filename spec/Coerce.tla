---- MODULE Coerce ----
\* spec/Candid.md "Coercion":  v : t ~> v' : t'.  Result [ok |-> TRUE, v] or failure; a *hard*
\* failure is not absorbed by an enclosing opt (no finite derivation at mu X. opt X).
EXTENDS Subtype
Null == [k |-> "null"]
Res == [k |-> "reserved"]
OKV(v) == [ok |-> TRUE, v |-> v]
FailV == [ok |-> FALSE, hard |-> FALSE]
HardV == [ok |-> FALSE, hard |-> TRUE]

RECURSIVE CoS(_, _, _, _, _, _)
RECURSIVE CoSeq(_, _, _, _, _, _)
RECURSIVE CoFields(_, _, _, _, _, _, _)
Co(e, S, v, t, t2) == CoS(e, S, v, t, t2, {})
\* S is the precomputed subtype relation of e (for reference types)
CoS(e, S, v, t, t2, seen) ==
  LET x == N(e, t)
      y == N(e, t2)
  IN CASE y.k = "reserved" -> OKV(Res)
       [] y.k = "opt" ->
            IF x.k \in {"null", "reserved"} THEN OKV(Null)
            ELSE IF x.k = "opt"
                 THEN IF v.k = "null" THEN OKV(Null)
                      ELSE LET r == Co(e, S, v.v, x.a, y.a)
                           IN IF r.ok THEN OKV([k |-> "opt", v |-> r.v]) ELSE IF r.hard THEN r ELSE OKV(Null)
                 ELSE IF Unf(e, t2) \in seen THEN HardV   \* no finite derivation (mu X. opt X): conformance suite says error
                 ELSE LET r == CoS(e, S, v, t, y.a, seen \cup {Unf(e, t2)})
                      IN IF r.ok THEN OKV([k |-> "opt", v |-> r.v]) ELSE IF r.hard THEN r ELSE OKV(Null)
       [] x.k = y.k /\ x.k \in PrimKinds /\ x.k # "empty" -> OKV(v)
       [] x.k = "nat" /\ y.k = "int" -> OKV(v)
       [] x.k = "service" /\ y.k = "principal" -> OKV([k |-> "principal", b |-> v.b])
       [] x.k = "vec" /\ y.k = "vec" ->
            LET r == CoSeq(e, S, v.vs, x.a, y.a, 1)
            IN IF r.ok THEN OKV([k |-> "vec", vs |-> r.v]) ELSE r
       [] x.k = "record" /\ y.k = "record" ->
            LET r == CoFields(e, S, v, x, y, 1, <<>>)
            IN IF r.ok THEN OKV([k |-> "rec", fs |-> r.v]) ELSE r
       [] x.k = "variant" /\ y.k = "variant" ->
            IF v.id \in FieldIds(y.fs)
            THEN LET r == Co(e, S, v.v, FieldTy(x.fs, v.id), FieldTy(y.fs, v.id))
                 IN IF r.ok THEN OKV([k |-> "var", id |-> v.id, v |-> r.v]) ELSE r
            ELSE FailV
       [] x.k = "func" /\ y.k = "func" -> IF <<Unf(e, t), Unf(e, t2)>> \in S THEN OKV(v) ELSE FailV
       [] x.k = "service" /\ y.k = "service" -> IF <<Unf(e, t), Unf(e, t2)>> \in S THEN OKV(v) ELSE FailV
       [] OTHER -> FailV
CoSeq(e, S, vs, a, a2, i) ==
  IF i > Len(vs) THEN OKV(<<>>)
  ELSE LET r == Co(e, S, vs[i], a, a2)
       IN IF ~r.ok THEN r
          ELSE LET rest == CoSeq(e, S, vs, a, a2, i + 1)
               IN IF rest.ok THEN OKV(<<r.v>> \o rest.v) ELSE rest
\* iterate over the expected fields y.fs[j]
CoFields(e, S, v, x, y, j, acc) ==
  IF j > Len(y.fs) THEN OKV(acc)
  ELSE LET f == y.fs[j] IN
       IF f.id \in FieldIds(x.fs)
       THEN LET vv == v.fs[CHOOSE i \in DOMAIN v.fs : v.fs[i].id = f.id].v
                r == Co(e, S, vv, FieldTy(x.fs, f.id), f.t)
            IN IF r.ok THEN CoFields(e, S, v, x, y, j + 1, Append(acc, [id |-> f.id, v |-> r.v]))
               ELSE r
       ELSE LET k == N(e, f.t).k
            IN IF k \in {"null", "opt"} THEN CoFields(e, S, v, x, y, j + 1, Append(acc, [id |-> f.id, v |-> Null]))
               ELSE IF k = "reserved" THEN CoFields(e, S, v, x, y, j + 1, Append(acc, [id |-> f.id, v |-> Res]))
               ELSE FailV


\* argument sequences (also used for messages): missing trailing arguments default like missing fields
RECURSIVE CoArgs(_, _, _, _, _, _, _)
CoArgs(e, S, vals, wts, ets, i, acc) ==
  IF i > Len(ets) THEN OKV(acc)
  ELSE IF i <= Len(wts)
       THEN LET r == Co(e, S, vals[i], wts[i], ets[i]) IN
            IF r.ok THEN CoArgs(e, S, vals, wts, ets, i + 1, Append(acc, r.v)) ELSE r
       ELSE LET k == N(e, ets[i]).k IN
            IF k \in {"null", "opt"} THEN CoArgs(e, S, vals, wts, ets, i + 1, Append(acc, Null))
            ELSE IF k = "reserved" THEN CoArgs(e, S, vals, wts, ets, i + 1, Append(acc, Res))
            ELSE FailV
HasRef(e) == \E id \in DOMAIN e : e[id].k \in {"func", "service"}
RefNodes(e) == {id \in DOMAIN e : e[id].k \in {"func", "service"}}
====
