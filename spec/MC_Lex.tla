---- MODULE MC_Lex ----
\* C13 lexical input space: every string of <= MaxLen characters over one representative per
\* character class of the lexer (string/escape/comment delimiters, digits, hex/exponent letters,
\* underscore, sign, dot, braces, newline, non-ASCII).
EXTENDS Naturals, Sequences, TLC, Json
CONSTANT MaxLen
Alpha == {34, 92, 117, 123, 125, 48, 120, 88, 95, 97, 47, 42, 10, 32, 46, 101, 45, 233, 40, 41, 58, 59}
VARIABLE s
Init == s = <<>>
Next == Len(s) < MaxLen /\ \E c \in Alpha : s' = Append(s, c)
Spec == Init /\ [][Next]_s
Emit == PrintT(<<"CASE", ToJson([chars |-> s])>>)
====
