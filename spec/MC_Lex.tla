---- MODULE MC_Lex ----
\* C13 lexical input space: every string of <= MaxLen characters over one representative per
\* character class of the lexer (string/escape/comment delimiters, digits, hex/exponent letters,
\* underscore, sign, dot, braces, newline, non-ASCII).
EXTENDS Naturals, Sequences, TLC, Json
CONSTANTS MaxLen, Kind    \* Kind = "lex": one character per lexer class;  "num": the characters numerals are made of
Alpha == IF Kind = "num" THEN {48, 49, 95, 120, 88, 102, 43, 45, 46, 101} ELSE {34, 92, 117, 123, 125, 48, 120, 88, 95, 97, 47, 42, 10, 32, 46, 101, 45, 233, 40, 41, 58, 59}
VARIABLE s
Init == s = <<>>
Next == Len(s) < MaxLen /\ \E c \in Alpha : s' = Append(s, c)
Spec == Init /\ [][Next]_s
Emit == PrintT(<<"CASE", ToJson([chars |-> s])>>)
====
