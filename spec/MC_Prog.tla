---- MODULE MC_Prog ----
\* C14 / C12 / C17-C19 program universe: every program with at most NDefs definitions named from
\* {A, B} (with repetition), bodies and actors from a universe that contains, next to well-formed
\* shapes, one representative of every way to be ill-formed (undefined name, duplicate, vacuous
\* cycle, colliding labels, non-function method, two annotations, oneway with results, duplicate
\* argument names, non-service actor).  Emits each program with the specification's verdict.
EXTENDS Naturals, Sequences, FiniteSets, TLC, Json
CONSTANTS NDefs, U          \* U = "small" | "medium"
LabIdOf(l) == CASE l = "1" -> 1 [] l = "a" -> 97 [] l = "97" -> 97 [] l = "b" -> 98 [] OTHER -> 0
INSTANCE WellFormed WITH LabId <- LabIdOf
Names == IF U = "alias" THEN {"A", "B", "C", "D"} ELSE {"A", "B"}
Prim(n) == [k |-> "prim", n |-> n]
Var(n) == [k |-> "var", n |-> n]
Arg(n, t) == [n |-> n, t |-> t]
Refs == IF U = "small" THEN {Prim("nat"), Var("A"), Var("B"), Var("Z")} ELSE {Prim("nat"), Prim("null"), Var("A"), Var("B"), Var("Z")}
FRefs == {Prim("nat"), Var("A")}
Labels == {"a", "97", "1", "b"}
Fld == [l : Labels, t : FRefs]
FieldSeqs == {<<>>} \cup {<<f>> : f \in [l : {"a", "1"}, t : FRefs]} \cup {<<f, g>> : f \in [l : {"a"}, t : FRefs], g \in [l : Labels, t : {Prim("nat")}]}
ModeSets == {<<>>, <<"query">>, <<"oneway">>, <<"query", "oneway">>}
ArgSeqs == {<<>>, <<Arg("", Prim("nat"))>>, <<Arg("x", Var("A"))>>, <<Arg("x", Prim("nat")), Arg("x", Prim("nat"))>>, <<Arg("x", Prim("nat")), Arg("y", Prim("nat"))>>}
RetSeqs == {<<>>, <<Arg("", Prim("nat"))>>}
Funcs == [k : {"func"}, args : ArgSeqs, rets : RetSeqs, modes : ModeSets]
SimpleFunc == [k |-> "func", args |-> <<>>, rets |-> <<>>, modes |-> <<>>]
MethTys == {SimpleFunc, Var("A"), Var("B"), Var("Z"), [k |-> "func", args |-> <<>>, rets |-> <<Arg("", Prim("nat"))>>, modes |-> <<"oneway">>], [k |-> "func", args |-> <<Arg("", Var("A"))>>, rets |-> <<Arg("", Var("B"))>>, modes |-> <<"query">>]}
Servs == {[k |-> "service", ms |-> <<>>]} \cup {[k |-> "service", ms |-> <<[name |-> "m", t |-> mt]>>] : mt \in MethTys}
         \cup {[k |-> "service", ms |-> <<[name |-> "m", t |-> SimpleFunc], [name |-> nm, t |-> Var("A")]>>] : nm \in {"m", "n"}}
AliasBodies == {Prim("nat"), Var("A"), Var("B"), Var("C"), Var("D"), [k |-> "opt", a |-> Var("A")], [k |-> "vec", a |-> Var("C")], [k |-> "service", ms |-> <<>>]}
FullBodies == Refs \cup [k : {"opt", "vec"}, a : FRefs \cup {Var("B")}]
          \cup [k : {"record", "variant"}, fs : FieldSeqs] \cup Funcs \cup Servs
Bodies == IF U = "alias" THEN AliasBodies ELSE FullBodies
AllActors == {[k |-> "none"]} \cup Servs \cup {Var("A"), Var("B"), Var("Z")}
          \cup {[k |-> "class", args |-> a, t |-> s] : a \in {<<>>, <<Arg("", Var("A"))>>, <<Arg("x", Prim("nat")), Arg("x", Prim("nat"))>>}, s \in {Var("A"), Var("Z"), [k |-> "service", ms |-> <<>>], [k |-> "service", ms |-> <<[name |-> "m", t |-> SimpleFunc]>>]}}
SmallActors == {[k |-> "none"], [k |-> "service", ms |-> <<>>], [k |-> "service", ms |-> <<[name |-> "m", t |-> Var("A")]>>], [k |-> "service", ms |-> <<[name |-> "m", t |-> SimpleFunc], [name |-> "m", t |-> Var("A")]>>],
                Var("A"), Var("Z"), [k |-> "class", args |-> <<Arg("", Var("A"))>>, t |-> Var("B")], [k |-> "class", args |-> <<Arg("x", Prim("nat")), Arg("x", Prim("nat"))>>, t |-> [k |-> "service", ms |-> <<>>]]}
Actors == IF U = "small" THEN SmallActors ELSE IF U = "alias" THEN {[k |-> "none"], Var("A"), Var("D")} ELSE AllActors
VARIABLES prog, ph
Init == prog = [defs |-> <<>>, actor |-> [k |-> "none"]] /\ ph = 0
AddDef == /\ ph = 0 /\ Len(prog.defs) < NDefs
          /\ \E n \in Names, b \in Bodies : prog' = [prog EXCEPT !.defs = Append(@, [name |-> n, body |-> b])]
          /\ ph' = 0
Finish == /\ ph = 0
          /\ \E a \in Actors : prog' = [prog EXCEPT !.actor = a]
          /\ ph' = 1
Next == AddDef \/ Finish
Spec == Init /\ [][Next]_<<prog, ph>>
Verdict(p) == IF NoDup(p) /\ Closed(p) THEN WF(p) ELSE FALSE
\* meta-theorem: a well-formed program stays well-formed when its definitions are listed in reverse
Rev(s) == [i \in DOMAIN s |-> s[Len(s) + 1 - i]]
OrderFree == ph = 1 => (Verdict(prog) = Verdict([prog EXCEPT !.defs = Rev(@)]))
Emit == ph = 1 => PrintT(<<"CASE", ToJson([p |-> prog, wf |-> IF Verdict(prog) THEN 1 ELSE 0])>>)
====
