---- MODULE Imports ----
\* spec/Candid.md "Imports": an interface description split over files.  A file is
\*   [imports |-> <<[svc |-> BOOLEAN, f |-> file name]...>>, p |-> [defs, actor]]   (p as in WellFormed.tla)
\* and a file system `fs` maps file names to files.  Reading of the document:
\*   - the type definitions of every file reachable through imports are (textually) included, each file once;
\*   - `import service` merges the main service of the imported file - which must exist and must not be a
\*     service constructor - into the importing file's main service; method names must stay unique;
\*   - a missing file is an error; the merged program must be well-formed (WellFormed.WF).
\* `SvcSpec` follows `import service` edges from the root only (the document's reading); `SvcImpl` is the
\* implementation's reading (a file counts as service-imported if *any* reachable file imports it so) -
\* they differ only when a plainly imported file itself imports a service, which the document leaves open.
EXTENDS WellFormed
Imps(fs, f) == {fs[f].imports[i].f : i \in DOMAIN fs[f].imports}
SvcImps(fs, f) == {fs[f].imports[i].f : i \in {i \in DOMAIN fs[f].imports : fs[f].imports[i].svc}}
RECURSIVE ReachF(_, _, _)
ReachF(fs, done, todo) ==
  IF todo = {} THEN done
  ELSE LET n == CHOOSE x \in todo : TRUE
           next == IF n \in DOMAIN fs THEN Imps(fs, n) ELSE {} IN
       ReachF(fs, done \cup {n}, (todo \cup next) \ (done \cup {n}))
Reach(fs, root) == ReachF(fs, {}, Imps(fs, root))
RECURSIVE SvcClosure(_, _, _)
SvcClosure(fs, done, todo) ==
  IF todo = {} THEN done
  ELSE LET n == CHOOSE x \in todo : TRUE
           next == IF n \in DOMAIN fs THEN SvcImps(fs, n) ELSE {} IN
       SvcClosure(fs, done \cup {n}, (todo \cup next) \ (done \cup {n}))
SvcSpec(fs, root) == SvcClosure(fs, {}, SvcImps(fs, root))
SvcImpl(fs, root) == {g \in Reach(fs, root) : \E f \in (Reach(fs, root) \cup {root}) \cap DOMAIN fs : g \in SvcImps(fs, f)}
RECURSIVE CatDefs(_, _)
CatDefs(fs, names) == IF names = {} THEN <<>> ELSE LET n == CHOOSE x \in names : TRUE IN fs[n].p.defs \o CatDefs(fs, names \ {n})
\* methods of an actor type (through names), or <<>> with ok = FALSE
ActorMeths(p, a) ==
  LET t == IF a.k = "class" THEN Chase(p, a.t, {}) ELSE Chase(p, a, {}) IN
  IF t.k = "service" THEN [ok |-> TRUE, ms |-> t.ms] ELSE [ok |-> FALSE, ms |-> <<>>]
RECURSIVE CatMeths(_, _, _)
CatMeths(fs, p, names) == IF names = {} THEN <<>> ELSE LET n == CHOOSE x \in names : TRUE IN ActorMeths(p, fs[n].p.actor).ms \o CatMeths(fs, p, names \ {n})
\* the merged program, or a rejection; svc = the set of files whose service is merged
Merge(fs, root, svc) ==
  LET reach == Reach(fs, root) IN
  IF ~(reach \subseteq DOMAIN fs) \/ root \in reach THEN [ok |-> FALSE, why |-> "missing_or_cyclic"]
  ELSE LET defs == fs[root].p.defs \o CatDefs(fs, reach)
           p0 == [defs |-> defs, actor |-> fs[root].p.actor] IN
       IF ~NoDup(p0) THEN [ok |-> FALSE, why |-> "duplicate_definition"]
       ELSE IF ~Closed(p0) \/ \E g \in svc : ~(VarsIn(fs[g].p.actor) \subseteq DefNames(p0)) THEN [ok |-> FALSE, why |-> "unbound_name"]
       ELSE IF svc = {} THEN [ok |-> TRUE, p |-> p0]
       ELSE IF \E g \in svc : fs[g].p.actor.k \in {"none", "class"} \/ ~ActorMeths(p0, fs[g].p.actor).ok
            THEN [ok |-> FALSE, why |-> "imported_service_missing_or_constructor"]
       ELSE LET own == IF p0.actor.k = "none" THEN [ok |-> TRUE, ms |-> <<>>] ELSE ActorMeths(p0, p0.actor) IN
            IF ~own.ok THEN [ok |-> FALSE, why |-> "main_actor_not_a_service"]
            ELSE LET ms == own.ms \o CatMeths(fs, p0, svc)
                     serv == [k |-> "service", ms |-> ms] IN
                 IF \E i, j \in DOMAIN ms : i # j /\ ms[i].name = ms[j].name THEN [ok |-> FALSE, why |-> "duplicate_method"]
                 ELSE [ok |-> TRUE, p |-> [defs |-> defs, actor |-> IF p0.actor.k = "class" THEN [k |-> "class", args |-> p0.actor.args, t |-> serv] ELSE serv]]
Accepts(fs, root, svc) == LET m == Merge(fs, root, svc) IN m.ok /\ Closed(m.p) /\ WF(m.p)
MethodNames(fs, root, svc) == LET m == Merge(fs, root, svc) IN
  IF m.p.actor.k = "none" THEN {} ELSE LET a == ActorMeths(m.p, m.p.actor) IN {a.ms[i].name : i \in DOMAIN a.ms}
DefinedNames(fs, root, svc) == DefNames(Merge(fs, root, svc).p)
====
