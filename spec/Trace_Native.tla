---- MODULE Trace_Native ----
\* Referee for the native (typed Rust) API: C01 (round trip, memo histories), C08 (native vs
\* untyped vs specification), C04 native leg.
EXTENDS Wire, Values, Json, IOUtils
Rec == ndJsonDeserialize(IOEnv.TRACE)
VARIABLES l
Init == l = 1
Bad(tag) == PrintT(<<"MISMATCH", l, tag>>)
IsOk(o) == "ok" \in DOMAIN o
IsErr(o) == "err" \in DOMAIN o
B(x) == IF x THEN 1 ELSE 0
Has(host, flag) == \E i \in 1..(Len(host) - Len(flag) + 1) : SubSeq(host, i, i + Len(flag) - 1) = flag
\* order-insensitive comparison for maps and sets (host collections iterate in their own order)
RECURSIVE Setify(_)
Setify(v) == CASE v.k = "vec" -> [k |-> "set", vs |-> {Setify(v.vs[i]) : i \in DOMAIN v.vs}]
               [] v.k = "opt" -> [k |-> "opt", v |-> Setify(v.v)]
               [] v.k = "rec" -> [k |-> "rec", fs |-> [i \in DOMAIN v.fs |-> [id |-> v.fs[i].id, v |-> Setify(v.fs[i].v)]]]
               [] v.k = "var" -> [k |-> "var", id |-> v.id, v |-> Setify(v.v)]
               [] OTHER -> v
RECURSIVE NoDup(_)
NoDup(v) == CASE v.k = "vec" -> Cardinality({v.vs[i] : i \in DOMAIN v.vs}) = Len(v.vs) /\ \A i \in DOMAIN v.vs : NoDup(v.vs[i])
              [] v.k = "opt" -> NoDup(v.v)
              [] v.k = "rec" -> \A i \in DOMAIN v.fs : NoDup(v.fs[i].v)
              [] v.k = "var" -> NoDup(v.v)
              [] OTHER -> TRUE
\* maps and sets keep one entry per key: a wire vector with repeated keys (first record field) is a host limit
RECURSIVE NoDupKeys(_)
NoDupKeys(v) == CASE v.k = "vec" -> /\ \A i \in DOMAIN v.vs : NoDupKeys(v.vs[i])
                                   /\ \A i, j \in DOMAIN v.vs : i # j =>
                                         (IF v.vs[i].k = "rec" /\ Len(v.vs[i].fs) > 0 /\ v.vs[j].k = "rec" /\ Len(v.vs[j].fs) > 0 THEN v.vs[i].fs[1].v # v.vs[j].fs[1].v ELSE v.vs[i] # v.vs[j])
                  [] v.k = "opt" -> NoDupKeys(v.v)
                  [] v.k = "rec" -> \A i \in DOMAIN v.fs : NoDupKeys(v.fs[i].v)
                  [] v.k = "var" -> NoDupKeys(v.v)
                  [] OTHER -> TRUE
SameV(nat, spec, host) == IF Has(host, "unordered") THEN (NoDupKeys(spec) => Setify(nat) = Setify(spec)) ELSE nat = spec
\* a recognisable shape of difference: null where the specification has `opt` of an empty vector
RECURSIVE HasEmptyVec(_)
HasEmptyVec(v) == CASE v.k = "vec" -> v.vs = <<>> \/ \E i \in DOMAIN v.vs : HasEmptyVec(v.vs[i])
                    [] v.k = "opt" -> HasEmptyVec(v.v)
                    [] v.k = "rec" -> \E i \in DOMAIN v.fs : HasEmptyVec(v.fs[i].v)
                    [] v.k = "var" -> HasEmptyVec(v.v)
                    [] OTHER -> FALSE
RECURSIVE NullForOptEmptyVec(_, _)
NullForOptEmptyVec(nat, spec) ==
  \/ (nat.k = "null" /\ spec.k = "opt" /\ HasEmptyVec(spec.v))
  \/ (nat.k = "opt" /\ spec.k = "opt" /\ NullForOptEmptyVec(nat.v, spec.v))
  \/ (nat.k = "vec" /\ spec.k = "vec" /\ Len(nat.vs) = Len(spec.vs) /\ \E i \in DOMAIN nat.vs : NullForOptEmptyVec(nat.vs[i], spec.vs[i]))
  \/ (nat.k = "rec" /\ spec.k = "rec" /\ Len(nat.fs) = Len(spec.fs) /\ \E i \in DOMAIN nat.fs : NullForOptEmptyVec(nat.fs[i].v, spec.fs[i].v))
  \/ (nat.k = "var" /\ spec.k = "var" /\ nat.id = spec.id /\ NullForOptEmptyVec(nat.v, spec.v))
WrongTag(nat, spec) == IF NullForOptEmptyVec(nat, spec) THEN "native:wrong_value:null_for_opt_of_empty_vec" ELSE "native:wrong_value"
TyOK(tn, env, t) == "skip" \in DOMAIN tn \/ ("t" \in DOMAIN tn /\ EqQ(tn.env @@ env, tn.t, t))
RtOK(res) == "ok" \in DOMAIN res
RtTag(res) == IF "panic" \in DOMAIN res THEN "panic" ELSE IF "err" \in DOMAIN res THEN "decode_error" ELSE IF "differs" \in DOMAIN res THEN "different_value" ELSE "encode_error"
RtCase(r) ==
  /\ (IF "res" \in DOMAIN r.rt /\ RtOK(r.rt.res) THEN TRUE ELSE Bad("rt:" \o (IF "res" \in DOMAIN r.rt THEN RtTag(r.rt.res) ELSE "encode_error")))
  /\ (IF TyOK(r.ty_now, r.env, r.t) THEN TRUE ELSE Bad("rt:type_differs_from_declared"))
  \* the bytes also read back, by the specification's decoder, as the declared type and value (independent of the crate's decoder)
  /\ ("blob" \in DOMAIN r.rt =>
        LET m == ParseNoReplace(r.rt.blob) IN
        IF m.ok /\ Len(m.types) = 1 /\ EqQ(m.env @@ r.env, m.types[1], r.t) /\ m.vals = <<r.rt.v>> THEN TRUE ELSE Bad("rt:encoding_not_wellformed"))
HistCase(r) ==
  IF "steps" \notin DOMAIN r.r THEN Bad("hist:thread_panic")
  ELSE \A i \in DOMAIN r.r.steps :
         LET st == r.r.steps[i] IN
         \A n \in DOMAIN st.probes :
            /\ (IF RtOK(st.probes[n].rt) THEN TRUE ELSE Bad("hist:rt:" \o RtTag(st.probes[n].rt)))
            /\ (IF TyOK(st.probes[n].ty_now, r.r.decls[n].env, r.r.decls[n].t) THEN TRUE ELSE Bad("hist:type_differs_from_declared"))
\* host limits: a number beyond 127 bits anywhere in the value may legitimately be refused by u128/i128 fields;
\* fixed-size arrays refuse other lengths
RECURSIVE HasBig(_)
HasBig(v) == CASE v.k = "num" -> Len(v.bits) > 127
               [] v.k = "opt" -> HasBig(v.v)
               [] v.k = "vec" -> \E i \in DOMAIN v.vs : HasBig(v.vs[i])
               [] v.k = "rec" -> \E i \in DOMAIN v.fs : HasBig(v.fs[i].v)
               [] v.k = "var" -> HasBig(v.v)
               [] OTHER -> FALSE
Excused(r, v) == Has(r.host, "array") \/ HasBig(v)
ElemSize(unit, x) == IF unit = "text" THEN Len(Utf8Enc(x.cps)) ELSE Len(x.bytes)
RECURSIVE SumSizes(_, _, _)
SumSizes(unit, vs, i) == IF i > Len(vs) THEN 0 ELSE ElemSize(unit, vs[i]) + SumSizes(unit, vs, i + 1)
Within(b, v) == /\ (b.l < 0 \/ Len(v.vs) <= b.l)
                /\ (b.e < 0 \/ \A i \in DOMAIN v.vs : ElemSize(b.unit, v.vs[i]) <= b.e)
                /\ (b.s < 0 \/ SumSizes(b.unit, v.vs, 1) <= b.s)
Bounded(r) == "bound" \in DOMAIN r /\ "l" \in DOMAIN r.bound
DecCase(r) ==
  LET d == Decode(r.blob, r.env, <<r.t>>) IN
  IF IsBomb(d) THEN TRUE
  ELSE /\ (IF d.ok /\ (Bounded(r) => Within(r.bound, d.v[1]))
           THEN (IF IsOk(r.native) THEN (IF SameV(r.native.ok, d.v[1], r.host) THEN TRUE ELSE Bad(WrongTag(r.native.ok, d.v[1])))
                 ELSE IF IsErr(r.native) THEN (IF Excused(r, d.v[1]) THEN TRUE ELSE Bad("native:rejects_what_untyped_accepts")) ELSE Bad("native:panic"))
           ELSE (IF IsErr(r.native) THEN TRUE
                 ELSE IF IsOk(r.native) THEN (IF d.ok THEN Bad("native:bounded_vec_accepts_beyond_limits") ELSE Bad("native:accepts_what_untyped_rejects"))
                 ELSE Bad("native:panic")))
       /\ (IF d.ok THEN (IF IsOk(r.untyped) /\ r.untyped.ok = d.v THEN TRUE ELSE Bad("untyped:differs_from_spec"))
           ELSE (IF IsErr(r.untyped) THEN TRUE ELSE Bad("untyped:differs_from_spec")))
       /\ (IF (IsOk(r.untyped) /\ IsOk(r.untyped_real) /\ r.untyped.ok = r.untyped_real.ok) \/ (IsErr(r.untyped) /\ IsErr(r.untyped_real)) THEN TRUE ELSE Bad("untyped:derived_type_differs_from_declared"))
UpCase(r) ==
  LET s == SubQ(r.env, r.tf, r.tt)
      d == Decode(r.blob, r.env, <<r.tt>>)
  IN /\ (IF r.sub = B(s) THEN TRUE ELSE Bad("up:subtype_verdict"))
     /\ (r.sub = 1 =>
           /\ (IF IsOk(r.native) THEN (IF d.ok /\ SameV(r.native.ok, d.v[1], r.host) THEN TRUE ELSE Bad("up:native_wrong_value"))
               ELSE IF IsErr(r.native) THEN (IF d.ok /\ Excused(r, d.v[1]) THEN TRUE ELSE Bad("up:accepted_but_native_decode_fails")) ELSE Bad("up:native_panic"))
           /\ (IF IsOk(r.untyped) THEN TRUE ELSE Bad("up:accepted_but_untyped_decode_fails")))
Next == /\ l <= Len(Rec)
        /\ LET r == Rec[l] IN
           IF "abort" \in DOMAIN r THEN Bad("abort")
           ELSE CASE r.kind = "rt" -> RtCase(r)
                  [] r.kind = "hist" -> HistCase(r)
                  [] r.kind = "dec" -> DecCase(r)
                  [] r.kind = "up" -> UpCase(r)
                  [] OTHER -> TRUE
        /\ l' = l + 1
Spec == Init /\ [][Next]_l
Post == PrintT(<<"CONSUMED", TLCGet("stats").diameter - 1, Len(Rec)>>)
====
