---- MODULE Utf8 ----
EXTENDS Bits
\* decode bytes b[p..q] to scalar values: [ok, cps]   (spec: utf8(t))
RECURSIVE Utf8Dec(_, _, _, _)
Utf8Dec(b, p, q, acc) ==
  IF p > q THEN [ok |-> TRUE, cps |-> acc]
  ELSE LET x == b[p]
           cont(i) == i <= q /\ b[i] >= 128 /\ b[i] < 192
       IN IF x < 128 THEN Utf8Dec(b, p + 1, q, Append(acc, x))
          ELSE IF x >= 194 /\ x < 224 /\ cont(p+1)
               THEN Utf8Dec(b, p + 2, q, Append(acc, (x - 192) * 64 + (b[p+1] - 128)))
          ELSE IF x >= 224 /\ x < 240 /\ cont(p+1) /\ cont(p+2)
               THEN LET c == (x - 224) * 4096 + (b[p+1] - 128) * 64 + (b[p+2] - 128)
                    IN IF c < 2048 \/ (c >= 55296 /\ c < 57344) THEN [ok |-> FALSE]
                       ELSE Utf8Dec(b, p + 3, q, Append(acc, c))
          ELSE IF x >= 240 /\ x < 245 /\ cont(p+1) /\ cont(p+2) /\ cont(p+3)
               THEN LET c == (x - 240) * 262144 + (b[p+1] - 128) * 4096 + (b[p+2] - 128) * 64 + (b[p+3] - 128)
                    IN IF c < 65536 \/ c > 1114111 THEN [ok |-> FALSE]
                       ELSE Utf8Dec(b, p + 4, q, Append(acc, c))
          ELSE [ok |-> FALSE]
Utf8(b, p, q, acc) == Utf8Dec(b, p, q, acc)
Utf8All(b) == Utf8Dec(b, 1, Len(b), <<>>)
EncCp(c) ==
  IF c < 128 THEN <<c>>
  ELSE IF c < 2048 THEN <<192 + (c \div 64), 128 + (c % 64)>>
  ELSE IF c < 65536 THEN <<224 + (c \div 4096), 128 + ((c \div 64) % 64), 128 + (c % 64)>>
  ELSE <<240 + (c \div 262144), 128 + ((c \div 4096) % 64), 128 + ((c \div 64) % 64), 128 + (c % 64)>>
Utf8Enc(cps) == Cat([i \in DOMAIN cps |-> EncCp(cps[i])])
IsScalar(c) == c >= 0 /\ c <= 1114111 /\ ~(c >= 55296 /\ c < 57344)
====
