---- MODULE DefOrder ----
\* C17 (design level): the order in which the JavaScript binding emits definitions.
\* A program is a mention graph over definitions 1..N (Mentions[i] = sequence of names the body of i
\* mentions, in syntactic order) and a sequence of names the actor mentions.  Chase = post-order DFS
\* of analysis.rs::chase_type, InferRec = analysis.rs::infer_rec, and the factory machine of
\* javascript.rs: all recs are declared `IDL.Rec()` first, then, in list order, a rec is `fill`ed and
\* any other name is bound with `const`.  Checked for every graph and every root sequence:
\*   BoundBeforeUse : a `const` body only mentions names already declared (rec) or bound earlier
\*   EveryRecFilled : every declared Rec is filled exactly once; nothing else is filled
\*   Closed         : everything reachable from the actor is emitted
EXTENDS Naturals, Sequences, FiniteSets, TLC
CONSTANT N
D == 1..N
SeqsUpTo(S, k) == UNION {[1..m -> S] : m \in 0..k}
VARIABLES mentions, roots, ph
Init == mentions = [i \in D |-> <<>>] /\ roots = <<>> /\ ph = 0
\* build the graph definition by definition, then the actor's mentions
SetDef == ph < N /\ \E s \in SeqsUpTo(D, 2) : mentions' = [mentions EXCEPT ![ph + 1] = s] /\ ph' = ph + 1 /\ UNCHANGED roots
SetRoots == ph = N /\ \E s \in SeqsUpTo(D, 2) : roots' = s /\ ph' = N + 1 /\ UNCHANGED mentions
Next == SetDef \/ SetRoots
Spec == Init /\ [][Next]_<<mentions, roots, ph>>
\* chase_type on a sequence of mentions: state [seen, res]
RECURSIVE ChaseSeq(_, _, _)
ChaseSeq(m, s, st) ==
  IF s = <<>> THEN st
  ELSE LET id == Head(s) IN
       IF id \in st.seen THEN ChaseSeq(m, Tail(s), st)
       ELSE LET inner == ChaseSeq(m, m[id], [seen |-> st.seen \cup {id}, res |-> st.res])
            IN ChaseSeq(m, Tail(s), [seen |-> inner.seen, res |-> Append(inner.res, id)])
DefList == ChaseSeq(mentions, roots, [seen |-> {}, res |-> <<>>]).res
\* infer_rec over the list
RECURSIVE Infer(_, _, _, _)
Infer(m, list, i, st) ==
  IF i > Len(list) THEN st.rec
  ELSE LET body == m[list[i]]
           new == {body[j] : j \in DOMAIN body} \ st.seen
       IN Infer(m, list, i + 1, [seen |-> st.seen \cup new \cup {list[i]}, rec |-> st.rec \cup new])
Recs == Infer(mentions, DefList, 1, [seen |-> {}, rec |-> {}])
Pos(list, x) == CHOOSE i \in DOMAIN list : list[i] = x
Done == ph = N + 1
BoundBeforeUse == Done =>
  LET l == DefList r == Recs IN
  \A i \in DOMAIN l : l[i] \notin r =>
     \A j \in DOMAIN mentions[l[i]] : LET x == mentions[l[i]][j] IN x \in r \/ (\E k \in 1..(i-1) : l[k] = x)
EveryRecFilled == Done => LET l == DefList IN Recs \subseteq {l[i] : i \in DOMAIN l} /\ \A i, j \in DOMAIN l : l[i] = l[j] => i = j
RootsBound == Done => LET l == DefList IN \A j \in DOMAIN roots : \E k \in DOMAIN l : l[k] = roots[j]
RECURSIVE Reach(_, _)
Reach(m, S) == LET S2 == S \cup UNION {{m[i][j] : j \in DOMAIN m[i]} : i \in S} IN IF S2 = S THEN S ELSE Reach(m, S2)
Closed == Done => LET l == DefList IN {l[i] : i \in DOMAIN l} = Reach(mentions, {roots[j] : j \in DOMAIN roots})
====
