---- MODULE SubtypeMemo ----
\* C05 (history part): the co-inductive memo algorithm of the subtype checker as a state machine.
\* State: an environment (built definition by definition), the caller-owned memo `gamma`, the
\* history of queries with their answers.  `Chk` transcribes the algorithm: a pair with a named
\* side is inserted into gamma before its bodies are compared (co-inductive hypothesis) and taken
\* out again when the comparison fails; the two option rules *probe* a sub-goal and swallow its
\* failure.  Retract is the policy for what a failed probe leaves behind:
\*   "pair"  - only the failing pair itself is removed (hypotheses made below it stay: unsound)
\*   "probe" - a failed probe restores gamma to what it was before the probe
\*   "trail" - every failed named pair restores gamma to what it was before its insertion
EXTENDS Subtype, Json
CONSTANTS Retract, NDefs, MaxQ, EmitAll
DefIds == <<"v_A", "v_B", "v_C", "v_D">>
Defs == {DefIds[i] : i \in 1..NDefs}
Prims == {"p_nat", "p_text", "p_null"}
Refs == Prims \cup Defs
F(i, t) == [id |-> <<0, i>>, t |-> t]
FieldSeqs == {<<>>} \cup {<<F(i, t)>> : i \in {0, 1}, t \in Refs} \cup {<<F(0, t), F(1, u)>> : t \in Refs, u \in Refs}
Bodies == [k : {"opt", "vec"}, a : Refs] \cup [k : {"record"}, fs : FieldSeqs]

VARIABLES env, n, gamma, hist, clean, pfail
vars == <<env, n, gamma, hist, clean, pfail>>

\* ---- the algorithm; result [ok, g, pf]  (pf: some probe failed after extending gamma)
R(ok, g, pf) == [ok |-> ok, g |-> g, pf |-> pf]
RECURSIVE Chk(_, _, _, _)
RECURSIVE ChkS(_, _, _, _)
RECURSIVE ChkFields(_, _, _, _, _, _)
Probe(e, g, a, b) ==       \* a probe whose failure is swallowed by the caller
  LET r == Chk(e, g, a, b) IN
  IF r.ok THEN r
  ELSE R(FALSE, IF Retract = "pair" THEN r.g ELSE g, r.pf \/ r.g # g)
Chk(e, g, a, b) ==
  IF a = b THEN R(TRUE, g, FALSE)
  ELSE IF a \in Defs \/ b \in Defs
  THEN IF <<a, b>> \in g THEN R(TRUE, g, FALSE)
       ELSE LET r == ChkS(e, g \cup {<<a, b>>}, a, b)
            IN IF r.ok THEN r
               ELSE R(FALSE, IF Retract = "trail" THEN g ELSE r.g \ {<<a, b>>}, r.pf)
  ELSE ChkS(e, g, a, b)
ChkS(e, g, a, b) ==
  LET x == e[a]
      y == e[b]
  IN CASE x.k \in {"nat", "text", "null"} /\ y.k = x.k -> R(TRUE, g, FALSE)
       [] x.k = "vec" /\ y.k = "vec" -> Chk(e, g, x.a, y.a)
       [] x.k = "null" /\ y.k = "opt" -> R(TRUE, g, FALSE)
       [] x.k = "opt" /\ y.k = "opt" ->
            LET r == Probe(e, g, x.a, y.a)
            IN IF r.ok THEN r
               ELSE LET r2 == Probe(e, r.g, a, y.a)       \* second rule: t <: t' for non-optional t'
                    IN R(TRUE, r2.g, r.pf \/ r2.pf)       \* third rule: always
       [] x.k # "opt" /\ y.k = "opt" ->
            LET r2 == Probe(e, g, a, y.a) IN R(TRUE, r2.g, r2.pf)
       [] x.k = "record" /\ y.k = "record" -> ChkFields(e, g, x, y, 1, FALSE)
       [] OTHER -> R(FALSE, g, FALSE)
ChkFields(e, g, x, y, j, pf) ==
  IF j > Len(y.fs) THEN R(TRUE, g, pf)
  ELSE LET f == y.fs[j] IN
       IF f.id \in FieldIds(x.fs)
       THEN LET r == Chk(e, g, FieldTy(x.fs, f.id), f.t)
            IN IF r.ok THEN ChkFields(e, r.g, x, y, j + 1, pf \/ r.pf) ELSE R(FALSE, r.g, pf \/ r.pf)
       ELSE IF IsOptLike(e, f.t) THEN ChkFields(e, g, x, y, j + 1, pf)
            ELSE R(FALSE, g, pf)

PEnv == [id \in Prims |-> PrimEnv[id]]
Init == env = PEnv /\ n = 0 /\ gamma = {} /\ hist = <<>> /\ clean = TRUE /\ pfail = FALSE
Defined == n = NDefs
Define == n < NDefs /\ \E bd \in Bodies : env' = (DefIds[n + 1] :> bd) @@ env /\ n' = n + 1 /\ UNCHANGED <<gamma, hist, clean, pfail>>
Query == /\ Defined /\ Len(hist) < MaxQ /\ clean
         /\ \E a \in Defs, b \in Defs :
              LET r == Chk(env, gamma, a, b) IN
              /\ gamma' = r.g
              /\ hist' = Append(hist, <<a, b, r.ok>>)
              /\ clean' = r.ok
              /\ pfail' = (pfail \/ r.pf)
         /\ UNCHANGED <<env, n>>
Next == Define \/ Query
Spec == Init /\ [][Next]_vars

S == SubRel(env)
\* the property: after any history of successful queries the answer is the relation, and the memo is sound
VerdictOK == (Defined /\ hist # <<>>) =>
               LET h == hist[Len(hist)] IN h[3] = (<<h[1], h[2]>> \in S)
MemoSound == (Defined /\ clean) => gamma \subseteq S
\* replay cases: histories in which a probe failed (or all of them)
Emit == (Defined /\ Len(hist) = MaxQ /\ (EmitAll \/ pfail)) =>
          PrintT(<<"CASE", ToJson([env |-> env, defs |-> SubSeq(DefIds, 1, NDefs), hist |-> [i \in DOMAIN hist |-> <<hist[i][1], hist[i][2]>>]])>>)
====
