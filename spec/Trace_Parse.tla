---- MODULE Trace_Parse ----
\* C13 referee: every entry point returned a result (ok / err) for every input; a panic is named by its site.
EXTENDS Naturals, Sequences, TLC, Json, IOUtils
Rec == ndJsonDeserialize(IOEnv.TRACE)
Entries == {"args", "value", "prog", "check", "typ", "typs", "init", "test"}
Tags(r) == IF "abort" \in DOMAIN r THEN {"abort"}
           ELSE UNION {{e \o ":" \o r.res[i].r[e] : e \in {e \in Entries : r.res[i].r[e] \notin {"ok", "err", "-"}}} : i \in DOMAIN r.res}
V == TLCEval([i \in 1..Len(Rec) |-> Tags(Rec[i])])
VARIABLES l
Init == l = 1
Next == /\ l <= Len(Rec)
        /\ \A t \in V[l] : PrintT(<<"MISMATCH", l, t>>)
        /\ l' = l + 1
Spec == Init /\ [][Next]_l
Post == PrintT(<<"CONSUMED", TLCGet("stats").diameter - 1, Len(Rec)>>)
====
