---- MODULE Trace_Val ----
\* Referee for C10 (annotate / typed encode / decode of untyped values, near-miss rejection) and
\* C04 (accepted subtyping implies successful, well-typed decoding; coherence up to OptSim).
EXTENDS Wire, Values, Json, IOUtils
Rec == ndJsonDeserialize(IOEnv.TRACE)
VARIABLES l
Init == l = 1
Bad(tag) == PrintT(<<"MISMATCH", l, tag>>)
IsOk(o) == "ok" \in DOMAIN o
IsErr(o) == "err" \in DOMAIN o
B(x) == IF x THEN 1 ELSE 0
D == 60
\* why a value is not of a type (empty = it is).  The reasons name the leniencies the untyped API
\* is known to have (known_findings.json); anything else is "other".
RECURSIVE Ill(_, _, _, _)
Ill(e, v, t, d) ==
  LET x == N(e, t) IN
  IF d = 0 THEN {"other"}
  ELSE CASE x.k = "reserved" -> {}
    [] x.k = "opt" -> IF v.k = "null" THEN {}
                      ELSE IF v.k = "reserved" THEN {"reserved_at_opt"}
                      ELSE IF v.k = "opt" THEN (IF Ill(e, v.v, x.a, d - 1) = {} THEN {} ELSE {"under_opt"})
                      ELSE {"under_opt"}
    [] x.k = "vec" -> IF v.k # "vec" THEN {"other"} ELSE UNION {Ill(e, v.vs[i], x.a, d - 1) : i \in DOMAIN v.vs}
    [] x.k = "record" ->
         IF v.k # "rec" THEN {"other"}
         ELSE LET vids == {v.fs[i].id : i \in DOMAIN v.fs}
                  tids == FieldIds(x.fs)
              IN (IF vids \ tids # {} THEN {"surplus_field"} ELSE {})
                 \cup UNION {IF x.fs[j].id \in vids
                             THEN Ill(e, v.fs[CHOOSE i \in DOMAIN v.fs : v.fs[i].id = x.fs[j].id].v, x.fs[j].t, d - 1)
                             ELSE IF IsOptLike(e, x.fs[j].t) THEN {"missing_optional_field"} ELSE {"other"} : j \in DOMAIN x.fs}
    [] x.k = "variant" -> IF v.k # "var" \/ v.id \notin FieldIds(x.fs) THEN {"other"} ELSE Ill(e, v.v, FieldTy(x.fs, v.id), d - 1)
    [] OTHER -> IF HasType(e, v, t, d) THEN {} ELSE {"other"}
Order == <<"other", "reserved_at_opt", "under_opt", "surplus_field", "missing_optional_field">>
RECURSIVE Join(_, _)
Join(S, i) == IF i > Len(Order) THEN "" ELSE (IF Order[i] \in S THEN Order[i] \o "+" ELSE "") \o Join(S, i + 1)
\* argument lists of another length than the type list: whatever the answer, it is an answer
Arity(r) == /\ (IF "panic" \in DOMAIN r.ann_more THEN Bad("annotate:panic_more_values_than_types@" \o r.ann_more.panic) ELSE TRUE)
            /\ (IF "panic" \in DOMAIN r.ann_fewer THEN Bad("annotate:panic_fewer_values_than_types@" \o r.ann_fewer.panic) ELSE TRUE)
            /\ (IF "panic" \in DOMAIN r.enc_more THEN Bad("encode:panic_more_values_than_types@" \o r.enc_more.panic) ELSE TRUE)
ValCase(r) ==
  Arity(r) /\
  LET why == UNION {Ill(r.env, r.vals[i], r.types[i], D) : i \in DOMAIN r.types}
      typed == why = {}
      want == [i \in DOMAIN r.types |-> NormAt(r.env, r.vals[i], r.types[i])]
  IN IF typed
     THEN /\ (IF IsOk(r.ann) /\ r.ann.ok = want THEN TRUE ELSE IF IsOk(r.ann) THEN Bad("annotate:changes_value") ELSE IF IsErr(r.ann) THEN Bad("annotate:rejects_typed") ELSE Bad("annotate:panic"))
          /\ (IF IsOk(r.enc) THEN TRUE ELSE IF IsErr(r.enc) THEN Bad("encode:rejects_typed") ELSE Bad("encode:panic"))
          /\ (IsOk(r.enc) =>
                LET d == Decode(r.blob, r.env, r.types) IN
                /\ (IF d.ok /\ d.v = want THEN (IF IsOk(r.dec_t) /\ r.dec_t.ok = want THEN TRUE ELSE Bad("roundtrip_typed"))
                    ELSE LET dn == DecodeNR(r.blob, r.env, r.types) IN
                         IF dn.ok /\ dn.v = want
                         THEN (IF IsOk(r.dec_t) /\ r.dec_t.ok = want THEN TRUE ELSE Bad("roundtrip_typed:replace_empty"))
                         ELSE Bad("roundtrip_typed:spec_rejects_encoder_output"))
                /\ (IF IsOk(r.dec_u) /\ r.dec_u.ok = want THEN TRUE ELSE Bad("roundtrip_untyped")))
     ELSE /\ (IF IsErr(r.ann) THEN TRUE ELSE IF IsOk(r.ann) THEN Bad("annotate:accepts_illtyped:" \o Join(why, 1)) ELSE Bad("annotate:panic"))
          /\ (IF IsErr(r.enc) THEN TRUE ELSE IF IsOk(r.enc) THEN Bad("encode:accepts_illtyped:" \o Join(why, 1)) ELSE Bad("encode:panic"))
\* the coercion has no finite derivation: a non-optional value at mu X. opt X (Coerce.HardV)
IsHard(d) == ~d.ok /\ "hard" \in DOMAIN d /\ d.hard
RECURSIVE Steps(_, _, _, _)
\* step i decodes at ts[i+1] what was encoded at ts[i] (r.blobs[i])
Steps(r, S, i, alive) ==
  IF i > Len(r.subs) \/ ~alive THEN TRUE
  ELSE LET spec == B(<<r.ts[i], r.ts[i+1]>> \in S) IN
       /\ (IF r.subs[i] = spec THEN TRUE ELSE Bad("chain:subtype_verdict"))
       /\ IF r.subs[i] = 1
          THEN (IF i <= Len(r.steps) /\ IsOk(r.steps[i]) /\ Len(r.steps[i].ok) = 1 /\ HasType(r.env, r.steps[i].ok[1], r.ts[i+1], D)
                THEN Steps(r, S, i + 1, TRUE)
                ELSE IF i <= Len(r.steps) /\ IsOk(r.steps[i]) THEN Bad("chain:illtyped_result")
                ELSE IF i <= Len(r.blobs) /\ IsHard(Decode(r.blobs[i], r.env, <<r.ts[i+1]>>)) THEN Bad("chain:accepted_but_decode_fails:mu_opt")
                ELSE IF i <= Len(r.blobs) /\ ~Decode(r.blobs[i], r.env, <<r.ts[i+1]>>).ok /\ DecodeNR(r.blobs[i], r.env, <<r.ts[i+1]>>).ok
                     THEN Bad("chain:accepted_but_decode_fails:replace_empty")
                ELSE Bad("chain:accepted_but_decode_fails"))
          ELSE TRUE
ChainCase(r) ==
  LET n == Len(r.subs)
      S == SubFrom(r.env, {<<r.ts[i], r.ts[i+1]>> : i \in 1..n} \cup {<<r.ts[1], r.ts[n+1]>>})
      d == Decode(r.blob, r.env, <<r.ts[n+1]>>)
      allsub == \A i \in 1..n : r.subs[i] = 1
  IN /\ Steps(r, S, 1, TRUE)
     /\ (IF r.sub_direct = B(<<r.ts[1], r.ts[n+1]>> \in S) THEN TRUE ELSE Bad("chain:subtype_verdict"))
     /\ (r.sub_direct = 1 =>
            IF IsOk(r.direct) /\ Len(r.direct.ok) = 1 /\ HasType(r.env, r.direct.ok[1], r.ts[n+1], D) THEN TRUE
            ELSE IF IsOk(r.direct) THEN Bad("chain:illtyped_result")
            ELSE IF IsHard(d) THEN Bad("chain:accepted_but_decode_fails:mu_opt")
            ELSE IF ~d.ok /\ DecodeNR(r.blob, r.env, <<r.ts[n+1]>>).ok THEN Bad("chain:accepted_but_decode_fails:replace_empty")
            ELSE Bad("chain:accepted_but_decode_fails"))
     /\ (IF IsBomb(d) THEN TRUE ELSE IF d.ok THEN (IF IsOk(r.direct) /\ r.direct.ok = d.v THEN TRUE ELSE Bad("chain:direct_value")) ELSE (IF IsErr(r.direct) THEN TRUE ELSE Bad("chain:direct_value")))
     /\ ((allsub /\ Len(r.steps) = n /\ (\A i \in 1..n : IsOk(r.steps[i])) /\ IsOk(r.direct)) =>
            IF OptSim(r.direct.ok[1], r.steps[n].ok[1]) THEN TRUE ELSE Bad("chain:incoherent"))
Next == /\ l <= Len(Rec)
        /\ LET r == Rec[l] IN
           IF "abort" \in DOMAIN r THEN Bad("abort")
           ELSE CASE r.kind = "val" -> ValCase(r)
                  [] r.kind = "chain" -> ChainCase(r)
        /\ l' = l + 1
Spec == Init /\ [][Next]_l
Post == PrintT(<<"CONSUMED", TLCGet("stats").diameter - 1, Len(Rec)>>)
====
