---- MODULE MC_Text ----
\* C11/C12 input space for names and texts: every string of <= MaxLen scalars over an alphabet with
\* one representative per class the printer/lexer treat differently; checks on the specification
\* that the literal grammar round-trips every such string through an escaping function.
EXTENDS ValueText, Json
CONSTANT MaxLen
Alpha == {0, 1, 9, 10, 13, 31, 32, 34, 39, 92, 48, 97, 102, 110, 117, 123, 125, 127, 128, 233, 768, 55295, 57344, 65533, 128230, 1114111}
VARIABLE s
Init == s = <<>>
Next == Len(s) < MaxLen /\ \E c \in Alpha : s' = Append(s, c)
Spec == Init /\ [][Next]_s
\* a reference escaping: every scalar as \u{hex}
HexDigit(v) == IF v < 10 THEN 48 + v ELSE 87 + v
RECURSIVE HexOf(_)
HexOf(n) == IF n < 16 THEN <<HexDigit(n)>> ELSE Append(HexOf(n \div 16), HexDigit(n % 16))
EscAll(cps) == <<34>> \o Cat([i \in DOMAIN cps |-> <<92, 117, 123>> \o HexOf(cps[i]) \o <<125>>]) \o <<34>>
LitRoundTrip == LET l == Lit(EscAll(s), 2, <<>>) IN l.ok /\ l.bytes = Utf8Enc(s)
Emit == PrintT(<<"CASE", ToJson([s |-> s])>>)
====
