---- MODULE Trace_Session ----
\* Referee for recorded decoding sessions (harness mode `session`): one line = one IDLDeserialize
\* driven through a sequence of operations, with the outcome of every call.
\*
\* Gated (what C02 fixes):
\*   - no call panics;
\*   - on a well-formed message (Wire.Parse accepts) laziness is invisible, so every outcome is fixed by
\*     the session machine until the first failing operation: value, error, is_done, done;
\*   - on a malformed message only acceptance is fixed: `new` succeeding followed by only successful
\*     gets and a successful `done` is "accepts_malformed" (when exactly the damage is noticed is not).
\* Gated for C07: the decoding quota left never increases from one call to the next.
\* Reported as drift only: the lazy outcomes of single gets on malformed messages.
EXTENDS Session, Json, IOUtils
Rec == ndJsonDeserialize(IOEnv.TRACE)
VARIABLES l
Init == l = 1
Bad(tag) == PrintT(<<"MISMATCH", l, tag>>)
Has(o, f) == f \in DOMAIN o
\* index of the first operation at which the machine errs or stops promising (Len+1 if none)
RECURSIVE FirstStop(_, _)
FirstStop(exp, j) == IF j > Len(exp) THEN j ELSE IF Has(exp[j], "err") \/ Has(exp[j], "any") THEN j ELSE FirstStop(exp, j + 1)
Agrees(e, o) ==
  CASE Has(e, "ok") -> Has(o, "ok") /\ o.ok = e.ok
    [] Has(e, "err") -> Has(o, "err")
    [] Has(e, "b") -> Has(o, "b") /\ o.b = e.b
    [] Has(e, "done") -> Has(o, "done")
    [] OTHER -> TRUE
Why(e, o, op) ==
  IF Has(e, "ok") THEN (IF Has(o, "ok") THEN "session:wrong_value" ELSE "session:get_rejects_valid")
  ELSE IF Has(e, "err") THEN (IF op = "done" THEN "session:done_accepts_invalid" ELSE "session:get_accepts_invalid")
  ELSE IF Has(e, "b") THEN "session:is_done_wrong"
  ELSE "session:done_rejects_valid"
NoPanic(r) ==
  /\ (IF Has(r.new, "panic") THEN Bad("session:panic:new@" \o r.new.panic) ELSE TRUE)
  /\ \A j \in DOMAIN r.outs : IF Has(r.outs[j], "panic") THEN Bad("session:panic:" \o r.ops[j].op \o "@" \o r.outs[j].panic) ELSE TRUE
QuotaDown(r) ==
  IF Has(r.new, "ok") /\ \E j \in DOMAIN r.dq : r.dq[j] > (IF j = 1 THEN r.new.dq ELSE r.dq[j - 1])
  THEN Bad("quota_refunded") ELSE TRUE
Case(r) ==
  LET m == Parse(r.blob)
      exp == Outcomes(r.blob, r.env, r.ops)
      n == Len(r.outs)
  IN /\ NoPanic(r)
     /\ QuotaDown(r)
     /\ IF IsBomb(m) THEN TRUE
        ELSE IF m.ok
        THEN IF ~Has(r.new, "ok") THEN (IF Has(r.new, "panic") THEN TRUE ELSE Bad("session:new_rejects_valid"))
             ELSE LET stop == FirstStop(exp, 1) IN
                  \A j \in 1..n : IF j > stop \/ Has(r.outs[j], "panic") \/ Agrees(exp[j], r.outs[j]) THEN TRUE
                                  ELSE Bad(Why(exp[j], r.outs[j], r.ops[j].op))
        ELSE \* malformed message: a complete, successful session must not exist
             IF Has(r.new, "ok") /\ (\E k \in 1..n : r.ops[k].op = "done" /\ Has(r.outs[k], "done")
                                       /\ \A j \in 1..(k - 1) : ~Has(r.outs[j], "err") /\ ~Has(r.outs[j], "panic"))
             THEN Bad("session:accepts_malformed")
             ELSE IF Has(r.new, "ok") /\ \E j \in 1..n : ~Has(r.outs[j], "panic") /\ ~Agrees(exp[j], r.outs[j]) /\ j <= FirstStop(exp, 1)
                  THEN Bad("DRIFT:lazy_outcome") ELSE TRUE
Next == /\ l <= Len(Rec)
        /\ LET r == Rec[l] IN IF "abort" \in DOMAIN r THEN Bad("abort") ELSE Case(r)
        /\ l' = l + 1
Spec == Init /\ [][Next]_l
Post == PrintT(<<"CONSUMED", TLCGet("stats").diameter - 1, Len(Rec)>>)
====
