---- MODULE Trace_Import ----
\* Referee for check_file on programs split over files (harness mode `prog import`): the checker's verdict
\* must be the specification's (Imports.Accepts); an accepted program's main service has exactly the merged
\* methods and its environment exactly the merged definitions.  Where the document's reading and the
\* implementation's reading of nested `import service` differ, a verdict that matches the latter is drift.
EXTENDS Hash, Json, IOUtils, TLC
Rec == ndJsonDeserialize(IOEnv.TRACE)
LabIdRec(l) == IF l.k = "id" THEN <<l.v[1], l.v[2]>> ELSE IdlHash(l.b)
INSTANCE Imports WITH LabId <- LabIdRec
SeqSetOf(s) == {s[i] : i \in DOMAIN s}
Tags(r) ==
  IF "abort" \in DOMAIN r THEN {"abort"}
  ELSE IF r.impl = 2 THEN {"import:checker_panics:" \o r.msg}
  ELSE LET fs == r.files
           s1 == SvcSpec(fs, r.root)
           s2 == SvcImpl(fs, r.root)
           want == Accepts(fs, r.root, s1)
           quirk == Accepts(fs, r.root, s2)
           got == r.impl = 1
       IN IF want # got
          THEN (IF s1 # s2 /\ quirk = got THEN {"import:service_of_nested_import_merged_through_plain_import"} ELSE IF got THEN {"import:accepts_illformed"} ELSE {"import:rejects_wellformed"})
          ELSE IF ~got THEN {}
          ELSE LET s == IF s1 # s2 /\ SeqSetOf(r.ms) = MethodNames(fs, r.root, s2) THEN s2 ELSE s1 IN
               (IF SeqSetOf(r.ms) = MethodNames(fs, r.root, s) THEN {} ELSE {"import:merged_service_differs"})
               \cup (IF SeqSetOf(r.defs) = DefinedNames(fs, r.root, s) THEN {} ELSE {"import:merged_definitions_differ"})
               \cup (IF s # s1 THEN {"import:service_of_nested_import_merged_through_plain_import"} ELSE {})
V == TLCEval([i \in 1..Len(Rec) |-> Tags(Rec[i])])
VARIABLES l
Init == l = 1
Next == /\ l <= Len(Rec)
        /\ \A t \in V[l] : PrintT(<<"MISMATCH", l, t>>)
        /\ l' = l + 1
Spec == Init /\ [][Next]_l
Post == PrintT(<<"CONSUMED", TLCGet("stats").diameter - 1, Len(Rec)>>)
====
