---- MODULE Trace_JS ----
\* C17 referee: the generated JavaScript factory, evaluated by node against a recording IDL builder,
\* yields a service type and init argument types structurally equal to the program's.
EXTENDS Subtype, Json, IOUtils
Rec == ndJsonDeserialize(IOEnv.TRACE)
Tags(r) ==
  IF "abort" \in DOMAIN r THEN {"abort"}
  ELSE IF r.kind # "js" THEN {}
  ELSE IF "panic" \in DOMAIN r.js_status THEN {"generator_panics@" \o r.js_status.panic}
  ELSE IF "error" \in DOMAIN r.out THEN {"javascript_error"}
  ELSE LET o == r.out.ok
           e == r.g.nodes @@ o.nodes
       IN (IF EqQ(e, r.g.actor, o.service) THEN {} ELSE {"service_type_differs"})
          \cup (IF Len(r.g.init) = Len(o.init) /\ \A i \in DOMAIN o.init : EqQ(e, r.g.init[i], o.init[i]) THEN {} ELSE {"init_types_differ"})
V == TLCEval([i \in 1..Len(Rec) |-> Tags(Rec[i])])
VARIABLES l
Init == l = 1
Next == /\ l <= Len(Rec)
        /\ \A t \in V[l] : PrintT(<<"MISMATCH", l, t>>)
        /\ l' = l + 1
Spec == Init /\ [][Next]_l
Post == PrintT(<<"CONSUMED", TLCGet("stats").diameter - 1, Len(Rec)>>)
====
