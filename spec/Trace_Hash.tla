---- MODULE Trace_Hash ----
\* C15 referee.
EXTENDS Hash, Leb128, Json, IOUtils
Rec == ndJsonDeserialize(IOEnv.TRACE)
VARIABLES l
Init == l = 1
Bad(tag) == PrintT(<<"MISMATCH", l, tag>>)
IsOk(o) == "ok" \in DOMAIN o
IdTags == {"idl_hash", "label", "did_record", "did_variant", "val_record", "name_to_id", "id_to_name", "annotate"}
HashLeb(h) == MinLeb(Trim(U32Bits(h)))
\* record { h : nat } = 7 : DIDL, 1 entry: 6c 01 <h> 7d ; 1 arg: type 0 ; value 07
WireRec(h) == <<68, 73, 68, 76, 1, 108, 1>> \o HashLeb(h) \o <<125, 1, 0, 7>>
\* variant { h : nat } = 7 : 6b 01 <h> 7d ; args 01 00 ; value: index 0, 07
WireVar(h) == <<68, 73, 68, 76, 1, 107, 1>> \o HashLeb(h) \o <<125, 1, 0, 0, 7>>
RECURSIVE Ascending(_, _)
Ascending(ids, i) == i >= Len(ids) \/ (IdLess(<<ids[i][1], ids[i][2]>>, <<ids[i+1][1], ids[i+1][2]>>) /\ Ascending(ids, i + 1))
NameCase(r) ==
  LET h == IdlHash(r.name) IN
  /\ \A t \in IdTags : t \in DOMAIN r.obs =>
        (IF IsOk(r.obs[t]) /\ <<r.obs[t].ok[1], r.obs[t].ok[2]>> = h THEN TRUE ELSE Bad(t))
  /\ (IF IsOk(r.obs.label_eq) /\ r.obs.label_eq.ok = 1 THEN TRUE ELSE Bad("label_eq"))
  /\ (IF IsOk(r.obs.wire) /\ r.obs.wire.ok = WireRec(h) THEN TRUE ELSE Bad("wire"))
  /\ (IF IsOk(r.obs.wire_untyped) /\ r.obs.wire_untyped.ok = WireVar(h) THEN TRUE ELSE Bad("wire_untyped"))
DeriveCase(r) ==
  LET want == {IdlHash(r.names[i]) : i \in DOMAIN r.names}
      got == {<<r.ids[i][1], r.ids[i][2]>> : i \in DOMAIN r.ids}
  IN /\ (IF got = want /\ Len(r.ids) = Len(r.names) THEN TRUE ELSE Bad("derive_ids"))
     /\ (IF Ascending(r.ids, 1) THEN TRUE ELSE Bad("derive_order"))
CollideCase(r) ==
  /\ (IF IdlHash(r.a) = IdlHash(r.b) /\ r.a # r.b THEN TRUE ELSE Bad("not_a_collision"))
  /\ \A t \in DOMAIN r.obs :
       IF "accepted" \in DOMAIN r.obs[t] THEN Bad("dup_accepted_" \o t)
       ELSE IF "panic" \in DOMAIN r.obs[t] /\ t \notin {"macro_record", "macro_variant", "macro_mixed"} THEN Bad("dup_panic_" \o t)
       ELSE TRUE
Next == /\ l <= Len(Rec)
        /\ LET r == Rec[l] IN
           IF "abort" \in DOMAIN r THEN Bad("abort")
           ELSE CASE r.kind = "name" -> NameCase(r)
                  [] r.kind = "derive" -> DeriveCase(r)
                  [] r.kind = "collide" -> CollideCase(r)
        /\ l' = l + 1
Spec == Init /\ [][Next]_l
Post == PrintT(<<"CONSUMED", TLCGet("stats").diameter - 1, Len(Rec)>>)
====
