---- MODULE Trace_RS ----
\* C18 referee: the Rust types the binding generator emitted (compiled, and projected through
\* CandidType::ty()) against the source program: every definition the binding must emit has a
\* structurally equal Rust item, every method's argument/result types and the init arguments are equal.
EXTENDS Subtype, Utf8, Json, IOUtils
Rec == ndJsonDeserialize(IOEnv.TRACE)
Sfx(r) == IF r.numeric_nontuple = 1 THEN ":numeric_label" ELSE ""
\* the signature of a name collision in the generator: the Rust type found at a position is the type of some *other*
\* anonymous source type of the program (two distinct source types were given one Rust item)
Collapsed(e, r, rsty) == \E x \in DOMAIN r.g.nodes : r.g.nodes[x].k \in {"record", "variant", "func", "service"} /\ EqQ(e, x, rsty)
Why(e, r, rsty) == IF r.numeric_nontuple = 1 THEN ":numeric_label" ELSE IF Collapsed(e, r, rsty) THEN ":collapsed_with_other_source_type" ELSE ""
Tags(r) ==
  IF "abort" \in DOMAIN r THEN {"abort"}
  ELSE IF r.kind # "rs" THEN {}
  ELSE IF "panic" \in DOMAIN r.status THEN {"generator_panics@" \o r.status.panic}
  ELSE IF "compile_error" \in DOMAIN r.rs THEN {"does_not_compile"}
  ELSE IF "panic" \in DOMAIN r.rs THEN {"derived_type_panics"}
  ELSE LET e == r.g.nodes @@ r.rs.nodes
           items == {r.rs.items[n] : n \in DOMAIN r.rs.items}
           sv == IF r.g.actor = "none" THEN [k |-> "none"] ELSE N(e, r.g.actor)
       IN (IF \A i \in DOMAIN r.expect_defs : \E it \in items : EqQ(e, r.g.defs[r.expect_defs[i]], it) THEN {} ELSE {"definition_has_no_equal_rust_type" \o Sfx(r)})
          \cup (IF sv.k # "service" THEN {}
                ELSE UNION {LET nm == sv.ms[j].name
                                f == N(e, sv.ms[j].t)
                                cand == {i \in DOMAIN r.rs.methods : Utf8Enc(r.rs.methods[i].original) = nm}
                            IN IF Cardinality(cand) # 1 THEN {"method_missing_or_duplicated"}
                               ELSE LET m == r.rs.methods[CHOOSE i \in cand : TRUE] IN
                                    IF f.k # "func" \/ Len(m.args) # Len(f.args) \/ Len(m.rets) # Len(f.rets) THEN {"method_types_differ"}
                                    ELSE {"method_types_differ" \o Why(e, r, m.args[i]) : i \in {i \in DOMAIN f.args : ~EqQ(e, f.args[i], m.args[i])}}
                                         \cup {"method_types_differ" \o Why(e, r, m.rets[i]) : i \in {i \in DOMAIN f.rets : ~EqQ(e, f.rets[i], m.rets[i])}}
                            : j \in DOMAIN sv.ms})
          \cup (IF Len(r.g.init) # Len(r.rs.init) THEN {"init_types_differ"}
                ELSE {"init_types_differ" \o Why(e, r, r.rs.init[i]) : i \in {i \in DOMAIN r.g.init : ~EqQ(e, r.g.init[i], r.rs.init[i])}})
V == TLCEval([i \in 1..Len(Rec) |-> Tags(Rec[i])])
VARIABLES l
Init == l = 1
Next == /\ l <= Len(Rec)
        /\ \A t \in V[l] : PrintT(<<"MISMATCH", l, t>>)
        /\ l' = l + 1
Spec == Init /\ [][Next]_l
Post == PrintT(<<"CONSUMED", TLCGet("stats").diameter - 1, Len(Rec)>>)
====
