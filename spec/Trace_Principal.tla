---- MODULE Trace_Principal ----
\* C16 referee.
EXTENDS Crc32Base32, Leb128, Json, IOUtils
Rec == ndJsonDeserialize(IOEnv.TRACE)
VARIABLES l
Init == l = 1
Bad(tag) == PrintT(<<"MISMATCH", l, tag>>)
IsOk(o) == "ok" \in DOMAIN o
IsErr(o) == "err" \in DOMAIN o
Ctor == {"try_from_slice", "try_from_vec", "try_from_ref", "from_slice", "wire_native", "wire_value"}
BytesCase(r) ==
  LET fits == Len(r.b) <= 29 IN
  /\ \A t \in Ctor : IF fits THEN (IF IsOk(r.obs[t]) /\ r.obs[t].ok = r.b THEN TRUE ELSE Bad(t))
                     ELSE (IF IsErr(r.obs[t]) THEN TRUE ELSE Bad(t))      \* from_slice panics by contract (recorded as err)
  /\ fits =>
       LET c == Canon(r.b) IN
       /\ (IF IsOk(r.obs.to_text) /\ r.obs.to_text.ok = c THEN TRUE ELSE Bad("to_text"))
       /\ (IF IsOk(r.obs.display) /\ r.obs.display.ok = c THEN TRUE ELSE Bad("display"))
       /\ (IF IsOk(r.obs.roundtrip) /\ r.obs.roundtrip.ok = r.b THEN TRUE ELSE Bad("roundtrip"))
       /\ (IF IsOk(r.obs.json) /\ r.obs.json.ok = r.b /\ r.obs.json.text = c THEN TRUE ELSE Bad("json"))
       /\ (IF IsOk(r.obs.candid) /\ r.obs.candid.ok = r.b
              /\ r.obs.candid.wire = <<68, 73, 68, 76, 0, 1, 104, 1>> \o LebOfNat(Len(r.b)) \o r.b THEN TRUE ELSE Bad("candid"))
TextCase(r) ==
  LET a == Accept(r.s) IN
  \A t \in DOMAIN r.obs :
     IF a.ok THEN (IF IsOk(r.obs[t]) /\ r.obs[t].ok = a.bytes THEN TRUE ELSE Bad(t))
     ELSE (IF IsErr(r.obs[t]) THEN TRUE ELSE Bad(t))
Next == /\ l <= Len(Rec)
        /\ LET r == Rec[l] IN
           IF "abort" \in DOMAIN r THEN Bad("abort")
           ELSE IF r.kind = "bytes" THEN BytesCase(r) ELSE TextCase(r)
        /\ l' = l + 1
Spec == Init /\ [][Next]_l
Post == PrintT(<<"CONSUMED", TLCGet("stats").diameter - 1, Len(Rec)>>)
====
