---- MODULE TargetLex ----
\* C19: lexical machines of the generated languages.  One machine, parameterised by target:
\*   js / ts : line comments //, block comments /* */ (not nested), strings '..' ".." `..` with \ escapes
\*   mo / rs : line comments //, block comments /* */ (nested), strings ".." with \ escapes (a quote ' is not a delimiter)
\* State: mode in {N (code), L (line comment), B(depth) (block comment), S(q) (string)}.  The machine folds over
\* the characters and keeps what the checks need: whether it ends in code mode, every string token
\* (decoded), and the identifier tokens that equal a watched name or an injection marker INJ<digits>.
EXTENDS Naturals, Sequences, FiniteSets, TLC
IsIdStart(c) == (c >= 65 /\ c <= 90) \/ (c >= 97 /\ c <= 122) \/ c = 95 \/ c = 36
IsIdChar(c) == IsIdStart(c) \/ (c >= 48 /\ c <= 57)
IsDigit(c) == c >= 48 /\ c <= 57
IsHex(c) == IsDigit(c) \/ (c >= 65 /\ c <= 70) \/ (c >= 97 /\ c <= 102)
HexVal(c) == IF c <= 57 THEN c - 48 ELSE IF c <= 70 THEN c - 55 ELSE c - 87
Quotes(target) == IF target \in {"js", "ts"} THEN {39, 34, 96} ELSE {34}
Nested(target) == target \in {"mo", "rs"}
IsMarker(s) == Len(s) >= 4 /\ s[1] = 73 /\ s[2] = 78 /\ s[3] = 74 /\ \A i \in 4..Len(s) : IsDigit(s[i])
RECURSIVE IdEnd(_, _)
IdEnd(s, p) == IF p <= Len(s) /\ IsIdChar(s[p]) THEN IdEnd(s, p + 1) ELSE p
\* decode escapes inside a string token (Rust/JS style): \\ \' \" \` \n \r \t \0 \u{hex}
RECURSIVE HexRun(_, _, _)
HexRun(s, p, acc) == IF p <= Len(s) /\ IsHex(s[p]) /\ acc < 1114112 THEN HexRun(s, p + 1, acc * 16 + HexVal(s[p])) ELSE <<p, acc>>
RECURSIVE Decode(_, _, _)
Decode(s, p, acc) ==
  IF p > Len(s) THEN acc
  ELSE IF s[p] # 92 \/ p = Len(s) THEN Decode(s, p + 1, Append(acc, s[p]))
  ELSE LET c == s[p+1] IN
       IF c = 110 THEN Decode(s, p + 2, Append(acc, 10)) ELSE IF c = 114 THEN Decode(s, p + 2, Append(acc, 13))
       ELSE IF c = 116 THEN Decode(s, p + 2, Append(acc, 9)) ELSE IF c = 48 THEN Decode(s, p + 2, Append(acc, 0))
       ELSE IF c = 117 /\ p + 2 <= Len(s) /\ s[p+2] = 123
            THEN LET h == HexRun(s, p + 3, 0) IN IF h[1] <= Len(s) /\ s[h[1]] = 125 THEN Decode(s, h[1] + 1, Append(acc, h[2])) ELSE Decode(s, p + 2, Append(acc, c))
       ELSE Decode(s, p + 2, Append(acc, c))
\* the fold.  st = [m (mode), d (block depth), q (quote char), from (start of current token), strs, ids]
RECURSIVE Run(_, _, _, _, _)
Run(s, p, target, watch, st) ==
  IF p > Len(s) THEN [ok |-> (st.m = "N" \/ st.m = "L"), strs |-> st.strs, ids |-> st.ids, mode |-> st.m]
  ELSE LET c == s[p]
           nx == IF p < Len(s) THEN s[p+1] ELSE 0 IN
    CASE st.m = "N" ->
           IF c = 47 /\ nx = 47 THEN Run(s, p + 2, target, watch, [st EXCEPT !.m = "L"])
           ELSE IF c = 47 /\ nx = 42 THEN Run(s, p + 2, target, watch, [st EXCEPT !.m = "B", !.d = 1])
           ELSE IF c \in Quotes(target) THEN Run(s, p + 1, target, watch, [st EXCEPT !.m = "S", !.q = c, !.from = p + 1])
           ELSE IF IsIdStart(c) THEN LET e == IdEnd(s, p)
                                         tok == SubSeq(s, p, e - 1)
                                     IN Run(s, e, target, watch, IF IsMarker(tok) \/ tok \in watch THEN [st EXCEPT !.ids = Append(@, tok)] ELSE st)
           ELSE Run(s, p + 1, target, watch, st)
      [] st.m = "L" -> Run(s, p + 1, target, watch, IF c = 10 THEN [st EXCEPT !.m = "N"] ELSE st)
      [] st.m = "B" ->
           IF c = 42 /\ nx = 47 THEN Run(s, p + 2, target, watch, IF st.d = 1 THEN [st EXCEPT !.m = "N", !.d = 0] ELSE [st EXCEPT !.d = @ - 1])
           ELSE IF Nested(target) /\ c = 47 /\ nx = 42 THEN Run(s, p + 2, target, watch, [st EXCEPT !.d = @ + 1])
           ELSE Run(s, p + 1, target, watch, st)
      [] st.m = "S" ->
           IF c = 92 THEN Run(s, p + 2, target, watch, st)
           ELSE IF c = st.q THEN Run(s, p + 1, target, watch, [st EXCEPT !.m = "N", !.strs = Append(@, Decode(SubSeq(s, st.from, p - 1), 1, <<>>))])
           ELSE IF c = 10 /\ st.q # 96 THEN [ok |-> FALSE, strs |-> st.strs, ids |-> st.ids, mode |-> "newline in string"]
           ELSE Run(s, p + 1, target, watch, st)
Lex(s, target, watch) == Run(s, 1, target, watch, [m |-> "N", d |-> 0, q |-> 0, from |-> 0, strs |-> <<>>, ids |-> <<>>])
Count(seq, x) == Cardinality({i \in DOMAIN seq : seq[i] = x})
====
