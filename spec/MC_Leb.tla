---- MODULE MC_Leb ----
\* C09 generator + meta-theorems: builds every terminated (S)LEB128 string of <= MaxLen bytes
\* byte by byte, plus the boundary families (long padded / overflowing strings), emits each as a
\* case, and checks on every terminated string: MinLeb/MinSleb are right inverses of the value
\* functions, minimal encodings are no longer than any other encoding of the same value.
EXTENDS Leb128, Json
CONSTANTS MaxLen,      \* exhaustive part: all strings up to this length
          Family       \* TRUE: boundary families instead of the exhaustive part

Conts == {128, 129, 255, 192, 191}
Finals == {0, 1, 2, 3, 63, 64, 126, 127}
Lens == {7, 8, 9, 10, 11, 18, 19, 20, 21}

VARIABLES s, done
vars == <<s, done>>
Init == s = <<>> /\ done = FALSE
\* exhaustive: append any continuation byte, or terminate with any final byte
Grow == ~Family /\ ~done /\ Len(s) < MaxLen - 1 /\ \E c \in 128..255 : s' = Append(s, c) /\ done' = FALSE
Stop == ~Family /\ ~done /\ \E f \in 0..127 : s' = Append(s, f) /\ done' = TRUE
\* families: first byte c0, middle bytes all c1, penultimate c2, final f
Fam1 == Family /\ ~done /\ s = <<>> /\ \E k \in Lens, c0 \in Conts : s' = [i \in 1..k |-> c0] /\ done' = FALSE
Fam2 == Family /\ ~done /\ s # <<>> /\
        \E c1 \in Conts, c2 \in Conts, f \in Finals :
           LET k == Len(s) IN
           /\ s' = [i \in 1..k |-> IF i = k THEN f ELSE IF i = 1 THEN s[1] ELSE IF i = k - 1 THEN c2 ELSE c1]
           /\ done' = TRUE
Fam == Fam1 \/ Fam2
Next == Grow \/ Stop \/ Fam
Spec == Init /\ [][Next]_vars

G == LebGroups(s, 1, <<>>).gs
\* meta-theorems on every terminated string
RoundTripNat == done => LET n == NumOfLeb(G) IN LebGroups(MinLeb(n.bits), 1, <<>>).ok /\ NumOfLeb(LebGroups(MinLeb(n.bits), 1, <<>>).gs) = n
RoundTripInt == done => LET n == NumOfSleb(G) IN NumOfSleb(LebGroups(MinSleb(n), 1, <<>>).gs) = n
Minimal == done => Len(MinLeb(NumOfLeb(G).bits)) <= Len(s) /\ Len(MinSleb(NumOfSleb(G))) <= Len(s)
NoNegZero == done => LET n == NumOfSleb(G) IN n.neg => n.bits # <<>>
Emit == done => PrintT(<<"CASE", ToJson([b |-> s])>>)
====
