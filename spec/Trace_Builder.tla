---- MODULE Trace_Builder ----
\* Referee for recorded IDLBuilder histories (harness mode `builder`).  The builder machine of Builder.tla is
\* run over the logged operations (with the values the harness really built); gated:
\*   - a typed argument is accepted exactly when the value inhabits the type (C10's rejection clause is
\*     judged by C10; here a wrongly *accepted* argument shows as a message that does not denote the arguments);
\*   - every `serialize` output Denotes the arguments accepted so far: first call, repeated call, and after
\*     further arguments (C03: every message the encoder produces);
\*   - the twin builder fed the same operations produces the same bytes (determinism);
\*   - nothing panics.
EXTENDS Builder, Json, IOUtils
Rec == ndJsonDeserialize(IOEnv.TRACE)
VARIABLES l
Init == l = 1
Bad(tag) == PrintT(<<"MISMATCH", l, tag>>)
Has(o, f) == f \in DOMAIN o
\* accepted arguments after the first j operations, judged by what the implementation answered
RECURSIVE Accepted(_, _, _)
Accepted(r, j, acc) ==
  IF j > Len(r.ops) THEN acc
  ELSE LET o == r.ops[j] IN
       IF o.op # "ser" /\ Has(r.outs[j], "ok") THEN Accepted(r, j + 1, Append(acc, [t |-> o.t, v |-> o.v, typed |-> o.op # "untyped", at |-> j]))
       ELSE Accepted(r, j + 1, acc)
ArgsBefore(all, j) == SelectSeq(all, LAMBDA a : a.at < j)
\* a typed argument the implementation accepted although the value is not of the type (C10's business, see its
\* known findings): the history is not judged beyond reporting it
IllAccepted(r, all) == \E i \in DOMAIN all : all[i].typed /\ r.ops[all[i].at].op = "typed" /\ ~HasTypeL(r.env, all[i].v, all[i].t, 12)
Case(r) ==
  LET all == Accepted(r, 1, <<>>) IN
  IF IllAccepted(r, all) THEN Bad("DRIFT:accepts_illtyped_argument") ELSE
  \A j \in DOMAIN r.ops :
    LET o == r.ops[j]
        out == r.outs[j] IN
    IF Has(out, "panic") THEN Bad("builder:panic:" \o o.op)
    ELSE IF o.op = "ser" THEN
         IF Has(out, "serr") THEN Bad("builder:serialize_failed")
         ELSE /\ (IF Denotes(r.env, out.bytes, ArgsBefore(all, j)) THEN TRUE
                  ELSE IF \E i \in 1..(j - 1) : r.ops[i].op = "ser" THEN Bad("builder:repeated_serialize_not_wellformed")
                  ELSE IF \E i \in 1..(j - 1) : Has(r.outs[i], "err") THEN Bad("builder:message_after_rejected_argument_wrong")
                  ELSE Bad("builder:message_does_not_denote_arguments"))
              /\ (IF out.twin = out.bytes THEN TRUE ELSE Bad("builder:nondeterministic"))
    ELSE IF o.op = "typed" /\ Has(out, "err") /\ HasTypeL(r.env, o.v, o.t, 12) THEN Bad("builder:rejects_welltyped_argument")
    ELSE IF o.op = "native" /\ Has(out, "err") THEN Bad("builder:native_argument_failed")
    ELSE TRUE
Next == /\ l <= Len(Rec)
        /\ LET r == Rec[l] IN IF "abort" \in DOMAIN r THEN Bad("abort") ELSE Case(r)
        /\ l' = l + 1
Spec == Init /\ [][Next]_l
Post == PrintT(<<"CONSUMED", TLCGet("stats").diameter - 1, Len(Rec)>>)
====
