---- MODULE Trace_Text ----
\* C11 referee: (a) the real parser reads the printed text back to the original value; (b) the printed text, read by the
\* specification's own value grammar (ValueText.tla), denotes the original.  The verdicts are a constant (V), evaluated once:
\* TLC caches LET definitions only at constant level, and the recursive-descent reader depends on that.
EXTENDS ValueText, Json, IOUtils
Rec == ndJsonDeserialize(IOEnv.TRACE)
IsOk(o) == "ok" \in DOMAIN o
One(r, which, printed, parsed) ==
  IF ~IsOk(printed) THEN {which \o ":printer_panics"}
  ELSE (IF IsOk(parsed) /\ parsed.ok = r.vals THEN {}
           ELSE IF IsOk(parsed) THEN {which \o ":reads_back_different"}
           ELSE IF "panic" \in DOMAIN parsed THEN {which \o ":parser_panics"} ELSE {which \o ":does_not_parse"})
       \cup LET sr == ReadArgs(printed.ok) IN
          IF ~sr.ok THEN {which \o ":not_in_value_grammar:" \o sr.why}
          ELSE IF Len(sr.vs) = Len(r.vals) /\ \A i \in DOMAIN sr.vs : Denotes(sr.vs[i], r.vals[i]) THEN {}
          ELSE {which \o ":denotes_other_value"}
TxtCase(r) == One(r, "display", r.disp, r.p_disp) \cup One(r, "debug", r.dbg, r.p_dbg) \cup (IF r.same = 1 THEN {} ELSE {"nondeterministic"})
Tags(r) == IF "abort" \in DOMAIN r THEN {"abort"} ELSE IF r.kind = "txt" THEN TxtCase(r) ELSE {}
V == TLCEval([i \in 1..Len(Rec) |-> Tags(Rec[i])])
VARIABLES l
Init == l = 1
Next == /\ l <= Len(Rec)
        /\ \A t \in V[l] : PrintT(<<"MISMATCH", l, t>>)
        /\ l' = l + 1
Spec == Init /\ [][Next]_l
Post == PrintT(<<"CONSUMED", TLCGet("stats").diameter - 1, Len(Rec)>>)
====
