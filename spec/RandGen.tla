---- MODULE RandGen ----
\* The random value generator (candid_parser::random) as the specification sees it.
\*
\* A generator walks the requested type top-down with a configuration c = [d, s, rng, w, txt, val]:
\*   d, s   depth and size budgets (defaults 10 and 100).  Entering a node that is not a reference to a definition
\*          costs one unit of each; leaving it gives the depth unit back.  The size unit is given back only when the
\*          walk leaves a *reference* (a definition) or a record/variant field; elements of a vector whose element type
\*          is written in place therefore see a size that shrinks with their index (this is what the code does: the
\*          configuration is restored from a backup taken after the node's own decrement).
\*   rng    <<>> or <<l, r>>: numbers are drawn from [l, r] clamped to the type (a bound the type cannot represent is
\*          replaced by the type's own bound on that side)
\*   w      bound on vector lengths and on the number of characters of generated text (default 10)
\*   txt    kind of text ("ascii" by default)
\*   val    a `value = [...]` list is in force: the generator returns one of the configured literals annotated at the
\*          type (so only HasType is owed for that subtree)
\* Per-definition configuration (cfg.defs[id]) is merged when the walk enters the definition; its depth and size are
\* merged only on the first entry (not when the definition is already on the path).  Root-level depth and size are not
\* consulted by the code (State::new merges without a context) - recorded in the ledger, not gated.
\*
\* The budget law ("recursive types terminate within the configured depth and size"):  where the budget is used up
\* (d <= 0 or s <= 0 after the node's own decrement)
\*      an option is null,
\*      a variant takes an alternative of minimal estimated size,
\* and, everywhere, a vector is no longer than w.  Estimated size is size_helper of the code: 0 for empty, 1 for
\* other leaves, 1 + size for opt, 1 + 2*size for vec, 1 + sum for records, 1 + max for variants, and MAXD (20) when
\* the type reaches a definition that is already being measured.
\*
\* E = [g |-> type graph, defs |-> set of node ids that are definitions (entered through a reference)]
EXTENDS Values
MAXD == 20
NumKinds == {"nat", "int", "nat8", "nat16", "nat32", "nat64", "int8", "int16", "int32", "int64"}

RECURSIVE SizeH(_, _, _), SizeSum(_, _, _, _, _), SizeMx(_, _, _, _, _)
\* -1 = None (the type is recursive along this path).  A reference resolves straight to the first node that is not
\* itself a reference (rec_find_type): definitions that merely rename another are never entered.
SizeH(E, seen, t) ==
  IF t \in E.defs /\ t \in seen THEN -1
  ELSE LET x == N(E.g, t)
           sn == IF t \in E.defs THEN seen \cup {t} ELSE seen
       IN CASE x.k = "empty" -> 0
            [] x.k = "opt" -> LET s == SizeH(E, sn, x.a) IN IF s < 0 THEN -1 ELSE 1 + s
            [] x.k = "vec" -> LET s == SizeH(E, sn, x.a) IN IF s < 0 THEN -1 ELSE 1 + 2 * s
            [] x.k = "record" -> SizeSum(E, sn, x.fs, 1, 1)
            [] x.k = "variant" -> SizeMx(E, sn, x.fs, 1, 0)
            [] OTHER -> 1
SizeSum(E, seen, fs, j, acc) ==
  IF j > Len(fs) THEN acc
  ELSE LET s == SizeH(E, seen, fs[j].t) IN IF s < 0 THEN -1 ELSE SizeSum(E, seen, fs, j + 1, acc + s)
SizeMx(E, seen, fs, j, mx) ==
  IF j > Len(fs) THEN 1 + mx
  ELSE LET s == SizeH(E, seen, fs[j].t) IN IF s < 0 THEN -1 ELSE SizeMx(E, seen, fs, j + 1, MaxI(mx, s))
EffSize(E, t) == LET s == SizeH(E, {}, t) IN IF s < 0 THEN MAXD ELSE s
MinAlt(E, fs) == LET S == {EffSize(E, fs[i].t) : i \in DOMAIN fs} IN CHOOSE m \in S : \A n \in S : m <= n

\* ---- configurations
Default == [d |-> 10, s |-> 100, rng |-> <<>>, w |-> 10, txt |-> "ascii", val |-> FALSE]
\* merge a configuration table dc = [range, text, width, value, depth, size] (sequences are <<>> when unset, text "" when unset)
Merge(c, dc, nobudget) ==
  [d |-> IF dc.depth # <<>> /\ ~nobudget THEN dc.depth[1] ELSE c.d,
   s |-> IF dc.size # <<>> /\ ~nobudget THEN dc.size[1] ELSE c.s,
   rng |-> IF dc.range # <<>> THEN dc.range ELSE c.rng,
   w |-> IF dc.width # <<>> THEN dc.width[1] ELSE c.w,
   txt |-> IF dc.text # "" THEN dc.text ELSE c.txt,
   val |-> c.val \/ dc.value # <<>>]
RootCfg(cfg) == Merge(Default, cfg.root, TRUE)
Dec(c) == [c EXCEPT !.d = @ - 1, !.s = @ - 1]
Cut(c) == c.d <= 0 \/ c.s <= 0
\* configuration after entering node t (reference push and its merge), before the node's own decrement
EnterDef(E, cfg, c, t, seen) == IF t \in E.defs /\ t \in DOMAIN cfg.defs THEN Merge(c, cfg.defs[t], t \in seen) ELSE c

\* ---- numbers against a range
\* signed comparison of [neg, bits]
LeS(a, b) == IF a.neg /\ ~b.neg THEN TRUE
             ELSE IF ~a.neg /\ b.neg THEN FALSE
             ELSE IF ~a.neg THEN ~NumLess(b.bits, a.bits) ELSE ~NumLess(a.bits, b.bits)
Ones(n) == [i \in 1..n |-> 1]
Pow2(n) == [i \in 1..(n + 1) |-> IF i = n + 1 THEN 1 ELSE 0]
TyMin(k) == CASE k = "int8" -> Num(TRUE, Pow2(7)) [] k = "int16" -> Num(TRUE, Pow2(15)) [] k = "int32" -> Num(TRUE, Pow2(31))
              [] k = "int64" -> Num(TRUE, Pow2(63)) [] k = "int" -> Num(TRUE, Pow2(127)) [] OTHER -> Num(FALSE, <<>>)
TyMax(k) == CASE k = "int8" -> Num(FALSE, Ones(7)) [] k = "int16" -> Num(FALSE, Ones(15)) [] k = "int32" -> Num(FALSE, Ones(31))
              [] k = "int64" -> Num(FALSE, Ones(63)) [] k = "int" -> Num(FALSE, Ones(127))
              [] k = "nat8" -> Num(FALSE, Ones(8)) [] k = "nat16" -> Num(FALSE, Ones(16)) [] k = "nat32" -> Num(FALSE, Ones(32))
              [] k = "nat64" -> Num(FALSE, Ones(64)) [] OTHER -> Num(FALSE, Ones(128))
Signed(k) == k \in {"int", "int8", "int16", "int32", "int64"}
\* little-endian bytes of a fixed-width number as [neg, bits]
ByteBits(bs) == Cat([i \in DOMAIN bs |-> Bits8(bs[i])])
FixNum(bytes, signed) ==
  LET w == ByteBits(bytes) IN
  IF signed /\ w[Len(w)] = 1 THEN Num(TRUE, Trim(AddOneW(Invert(w), 1)))
  ELSE Num(FALSE, Trim(w))
AsNum(k, v) == IF k \in {"nat", "int"} THEN v ELSE FixNum(v.bytes, Signed(k))
Fits(k, n) == LeS(TyMin(k), n) /\ LeS(n, TyMax(k))
InRange(k, v, rng) ==
  LET lo == IF Fits(k, rng[1]) THEN rng[1] ELSE TyMin(k)
      hi == IF Fits(k, rng[2]) THEN rng[2] ELSE TyMax(k)
      n == AsNum(k, v)
  IN LeS(rng[1], rng[2]) /\ LeS(lo, n) /\ LeS(n, hi)

\* ---- text
KnownFree == {"name", "name.cn", "path", "country", "company", "bs"}
Emoji(c) == (c >= 127744 /\ c <= 128317) \/ (c >= 128506 /\ c <= 129651)
TextLaw(cps, c) ==
  IF c.txt \in KnownFree THEN {}
  ELSE (IF Len(cps) > c.w THEN {"text_longer_than_width"} ELSE {})
       \cup (CASE c.txt = "ascii" -> IF \A i \in DOMAIN cps : cps[i] >= 32 /\ cps[i] <= 126 THEN {} ELSE {"text_outside_configured_kind"}
               [] c.txt = "emoji" -> IF \A i \in DOMAIN cps : Emoji(cps[i]) THEN {} ELSE {"text_outside_configured_kind"}
               [] OTHER -> IF cps = <<>> THEN {} ELSE {"text_of_unknown_kind"})

\* ---- the laws a returned value v : t owes to the configuration (v is assumed to have type t)
RECURSIVE Laws(_, _, _, _, _, _), VecLaws(_, _, _, _, _, _, _, _)
Laws(E, cfg, v, t, c0, seen) ==
  LET c1 == EnterDef(E, cfg, c0, t, seen)
      sn == IF t \in E.defs THEN seen \cup {t} ELSE seen
      x == N(E.g, t)      \* the reference resolves through renaming definitions without entering them
  IN IF c1.val THEN {}
     ELSE LET c == Dec(c1) IN
       CASE x.k = "opt" -> IF v.k = "null" THEN {}
                           ELSE (IF Cut(c) THEN {"opt_some_beyond_budget"} ELSE {}) \cup Laws(E, cfg, v.v, x.a, c, sn)
         [] x.k = "vec" -> (IF Len(v.vs) > c.w THEN {"vec_longer_than_width"} ELSE {}) \cup VecLaws(E, cfg, v.vs, 1, x.a, c, sn, {})
         [] x.k = "record" -> UNION {Laws(E, cfg, v.fs[j].v, x.fs[j].t, c, sn) : j \in DOMAIN x.fs}
         [] x.k = "variant" -> LET ft == FieldTy(x.fs, v.id) IN
                               (IF Cut(c) /\ EffSize(E, ft) > MinAlt(E, x.fs) THEN {"variant_not_minimal_beyond_budget"} ELSE {})
                               \cup Laws(E, cfg, v.v, ft, c, sn)
         [] x.k \in NumKinds -> IF c.rng = <<>> \/ InRange(x.k, v, c.rng) THEN {} ELSE {"number_outside_range"}
         [] x.k = "text" -> TextLaw(v.cps, c)
         [] x.k = "func" -> LET u == Utf8All(v.m) IN IF u.ok THEN TextLaw(u.cps, c) ELSE {}
         [] OTHER -> {}
VecLaws(E, cfg, vs, i, a, c, seen, acc) ==
  IF i > Len(vs) THEN acc
  ELSE VecLaws(E, cfg, vs, i + 1, a, IF a \in E.defs THEN c ELSE [c EXCEPT !.s = @ - 1], seen, acc \cup Laws(E, cfg, vs[i], a, c, seen))
====
