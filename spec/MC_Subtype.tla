---- MODULE MC_Subtype ----
\* C05 (relation part) / C04: all environments of a bounded universe, built definition by
\* definition; meta-theorems of the subtype relation checked on every complete environment;
\* each complete environment is emitted with every pair of references as a query.
EXTENDS Subtype, Json
CONSTANTS Universe,   \* "data" | "ref"
          NDefs
DefIds == IF NDefs = 2 THEN <<"v_A", "v_B">> ELSE IF NDefs = 3 THEN <<"v_A", "v_B", "v_C">> ELSE <<"v_A", "v_B", "v_C", "v_D">>
Defs == SeqSet(DefIds)
DataPrims == {"p_null", "p_nat", "p_int", "p_text", "p_reserved", "p_empty"}
RefPrims == {"p_null", "p_nat", "p_int", "p_principal"}
AliasPrims == {"p_nat", "p_null", "p_reserved"}
Prims == IF Universe = "data" THEN DataPrims ELSE IF Universe = "alias" THEN AliasPrims ELSE RefPrims
Refs == Prims \cup Defs
F(i, t) == [id |-> <<0, i>>, t |-> t]
FieldSeqs == {<<>>} \cup {<<F(i, t)>> : i \in {0, 1}, t \in Refs} \cup {<<F(0, t), F(1, u)>> : t \in Refs, u \in Refs}
ArgSeqs == {<<>>} \cup {<<r>> : r \in Refs}
DataBodies == [k : {"opt", "vec"}, a : Refs] \cup [k : {"record", "variant"}, fs : FieldSeqs]
RefBodies == [k : {"opt"}, a : Refs] \cup [k : {"record"}, fs : {<<>>} \cup {<<F(0, t)>> : t \in Refs}]
             \cup [k : {"func"}, args : ArgSeqs, rets : ArgSeqs, modes : {<<>>, <<"query">>}]
             \cup [k : {"func"}, args : ArgSeqs, rets : {<<>>}, modes : {<<"oneway">>}]
             \cup {[k |-> "service", ms |-> <<>>]}
             \cup {[k |-> "service", ms |-> <<[name |-> nm, t |-> d]>>] : nm \in {<<109>>, <<110>>}, d \in Defs}
             \cup {[k |-> "service", ms |-> <<[name |-> <<109>>, t |-> d], [name |-> <<110>>, t |-> d2]>>] : d \in Defs, d2 \in Defs}
Bodies == IF Universe = "data" THEN DataBodies ELSE RefBodies
\* "alias": four definitions; A and B are names for something else (another definition or an optional-like
\* primitive, so that null / reserved / opt are reached through up to two names), C and D are records and
\* functions that mention them in positions the other side may lack (absent field, trailing argument / result)
AliasBodies == [k : {"alias"}, a : Refs] \cup {[k |-> "opt", a |-> "p_nat"]}
ARefs == {"v_A", "v_B", "p_nat", "p_null"}
F0 == [k |-> "func", args |-> <<>>, rets |-> <<>>, modes |-> <<>>]
StructBodies == {[k |-> "record", fs |-> <<>>]} \cup {[k |-> "record", fs |-> <<F(0, r)>>] : r \in ARefs} \cup {[k |-> "record", fs |-> <<F(0, "p_nat"), F(1, r)>>] : r \in ARefs}
                \cup {[F0 EXCEPT !.args = <<r>>] : r \in ARefs} \cup {[F0 EXCEPT !.args = <<"p_nat", r>>] : r \in ARefs} \cup {[F0 EXCEPT !.rets = <<r>>] : r \in ARefs}
BodiesAt(i) == IF Universe = "alias" THEN (IF i <= 2 THEN AliasBodies ELSE StructBodies) ELSE Bodies

VARIABLES env, n
vars == <<env, n>>
PEnv == [id \in Prims |-> PrimEnv[id]]
Init == env = PEnv /\ n = 0
Define == n < NDefs /\ \E bd \in BodiesAt(n + 1) : env' = (DefIds[n + 1] :> bd) @@ env /\ n' = n + 1
Next == Define
Spec == Init /\ [][Next]_vars
Complete == n = NDefs
\* service methods must denote functions
MethOK == \A d \in Defs : env[d].k = "service" => \A j \in DOMAIN env[d].ms : env[env[d].ms[j].t].k = "func"
Valid == Complete /\ MethOK /\ \A d \in Defs : AliasOK(env, d, {})

S == SubRel(env)
E == EqRel(env)
Reflexive == Valid => \A a \in Refs : <<a, a>> \in S
Transitive == Valid => LET s == S IN \A a \in Refs, b \in Refs, c \in Refs : (<<a, b>> \in s /\ <<b, c>> \in s) => <<a, c>> \in s
EqImpliesSub == Valid => LET s == S e == E IN \A p \in e : p \in s /\ <<p[2], p[1]>> \in s
EqEquiv == Valid => LET e == E IN (\A a \in Refs : <<a, a>> \in e) /\ (\A p \in e : <<p[2], p[1]>> \in e)
ReachAgrees == Valid => LET s == S IN \A a \in Defs, b \in Defs : SubQ(env, a, b) = (<<a, b>> \in s)
Emit == Valid => PrintT(<<"CASE", ToJson([env |-> env, defs |-> DefIds, refs |-> Refs])>>)
====
