SPECIFICATION Spec
CONSTANT Universe = "data"
CONSTANT NDefs = 2
INVARIANT Reflexive
INVARIANT Transitive
INVARIANT EqImpliesSub
INVARIANT EqEquiv
INVARIANT ReachAgrees
INVARIANT Emit
CHECK_DEADLOCK FALSE
