---- MODULE Values ----
\* Abstract values and typing.  v : t  as in spec/Candid.md "Values"/"Coercion" (HasType), a finite
\* generator Vals(e, t, d), and the relation OptSim used for coherence statements.
EXTENDS Coerce, Leb128, Utf8
NumZ == Num(FALSE, <<>>)
IsNum(v) == "k" \in DOMAIN v /\ v.k = "num"
RECURSIVE HasType(_, _, _, _)
\* d = remaining depth budget (values are finite trees, so a generous budget is exact)
HasType(e, v, t, d) ==
  LET x == N(e, t) IN
  IF d = 0 THEN FALSE
  ELSE CASE x.k = "null" -> v.k = "null"
    [] x.k = "reserved" -> v.k = "reserved"
    [] x.k = "empty" -> FALSE
    [] x.k = "bool" -> v.k = "bool" /\ v.b \in {0, 1}
    [] x.k = "nat" -> v.k = "num" /\ ~v.neg /\ (v.bits = <<>> \/ v.bits[Len(v.bits)] = 1)
    [] x.k = "int" -> v.k = "num" /\ (v.bits = <<>> => ~v.neg) /\ (v.bits = <<>> \/ v.bits[Len(v.bits)] = 1)
    [] FixWidth(x.k) > 0 -> v.k = "fix" /\ Len(v.bytes) = FixWidth(x.k)
    [] x.k = "text" -> v.k = "text" /\ \A i \in DOMAIN v.cps : IsScalar(v.cps[i])
    [] x.k = "principal" -> v.k = "principal" /\ Len(v.b) <= 29
    [] x.k = "service" -> v.k = "service" /\ Len(v.b) <= 29
    [] x.k = "func" -> v.k = "func" /\ Len(v.b) <= 29 /\ Utf8All(v.m).ok
    [] x.k = "opt" -> v.k = "null" \/ (v.k = "opt" /\ HasType(e, v.v, x.a, d - 1))
    [] x.k = "vec" -> v.k = "vec" /\ \A i \in DOMAIN v.vs : HasType(e, v.vs[i], x.a, d - 1)
    [] x.k = "record" -> v.k = "rec" /\ Len(v.fs) = Len(x.fs) /\
                         \A j \in DOMAIN x.fs : v.fs[j].id = x.fs[j].id /\ HasType(e, v.fs[j].v, x.fs[j].t, d - 1)
    [] x.k = "variant" -> v.k = "var" /\ v.id \in FieldIds(x.fs) /\ HasType(e, v.v, FieldTy(x.fs, v.id), d - 1)
    [] OTHER -> FALSE

\* typing as the untyped API admits it: anything at reserved (nat at int and null at opt are already in HasType)
RECURSIVE HasTypeL(_, _, _, _)
HasTypeL(e, v, t, d) ==
  LET x == N(e, t) IN
  IF d = 0 THEN FALSE
  ELSE CASE x.k = "reserved" -> TRUE
    [] x.k = "opt" -> v.k = "null" \/ (v.k = "opt" /\ HasTypeL(e, v.v, x.a, d - 1))
    [] x.k = "vec" -> v.k = "vec" /\ \A i \in DOMAIN v.vs : HasTypeL(e, v.vs[i], x.a, d - 1)
    [] x.k = "record" -> v.k = "rec" /\ Len(v.fs) = Len(x.fs) /\
                         \A j \in DOMAIN x.fs : v.fs[j].id = x.fs[j].id /\ HasTypeL(e, v.fs[j].v, x.fs[j].t, d - 1)
    [] x.k = "variant" -> v.k = "var" /\ v.id \in FieldIds(x.fs) /\ HasTypeL(e, v.v, FieldTy(x.fs, v.id), d - 1)
    [] OTHER -> HasType(e, v, t, d)
\* the value as it reads back at t: whatever stands at a reserved position becomes `reserved`
RECURSIVE NormAt(_, _, _)
NormAt(e, v, t) ==
  LET x == N(e, t) IN
  CASE x.k = "reserved" -> Res
    [] x.k = "opt" -> IF v.k = "null" THEN Null ELSE [k |-> "opt", v |-> NormAt(e, v.v, x.a)]
    [] x.k = "vec" -> [k |-> "vec", vs |-> [i \in DOMAIN v.vs |-> NormAt(e, v.vs[i], x.a)]]
    [] x.k = "record" -> [k |-> "rec", fs |-> [j \in DOMAIN v.fs |-> [id |-> v.fs[j].id, v |-> NormAt(e, v.fs[j].v, x.fs[j].t)]]]
    [] x.k = "variant" -> [k |-> "var", id |-> v.id, v |-> NormAt(e, v.v, FieldTy(x.fs, v.id))]
    [] OTHER -> v

\* small inhabitants of every type, to depth d
PNat(n) == Num(FALSE, NatBits(n))
PInt(i) == IF i >= 0 THEN PNat(i) ELSE Num(TRUE, NatBits(0 - i))
RECURSIVE Vals(_, _, _)
RECURSIVE RecVals(_, _, _, _)
Vals(e, t, d) ==
  LET x == N(e, t) IN
  CASE x.k = "null" -> {Null}
    [] x.k = "reserved" -> {Res}
    [] x.k = "empty" -> {}
    [] x.k = "bool" -> {[k |-> "bool", b |-> 1]}
    [] x.k = "nat" -> {PNat(0), PNat(300)}
    [] x.k = "int" -> {PInt(0), PInt(-65)}
    [] FixWidth(x.k) > 0 -> {[k |-> "fix", bytes |-> [i \in 1..FixWidth(x.k) |-> 200 + i]]}
    [] x.k = "text" -> {[k |-> "text", cps |-> <<>>], [k |-> "text", cps |-> <<97, 233>>]}
    [] x.k = "principal" -> {[k |-> "principal", b |-> <<4>>]}
    [] x.k = "service" -> {[k |-> "service", b |-> <<5, 6>>]}
    [] x.k = "func" -> {[k |-> "func", b |-> <<7>>, m |-> <<109>>]}
    [] x.k = "opt" -> {Null} \cup (IF d = 0 THEN {} ELSE {[k |-> "opt", v |-> v] : v \in Vals(e, x.a, d - 1)})
    [] x.k = "vec" -> {[k |-> "vec", vs |-> <<>>]} \cup
                      (IF d = 0 THEN {} ELSE {[k |-> "vec", vs |-> <<v>>] : v \in Vals(e, x.a, d - 1)} \cup {[k |-> "vec", vs |-> <<v, v>>] : v \in Vals(e, x.a, d - 1)})
    [] x.k = "record" -> IF d = 0 /\ Len(x.fs) > 0 THEN {} ELSE {[k |-> "rec", fs |-> fs] : fs \in RecVals(e, x.fs, 1, d)}
    [] x.k = "variant" -> IF d = 0 THEN {} ELSE UNION {{[k |-> "var", id |-> x.fs[i].id, v |-> v] : v \in Vals(e, x.fs[i].t, d - 1)} : i \in DOMAIN x.fs}
    [] OTHER -> {}
RecVals(e, fs, j, d) ==
  IF j > Len(fs) THEN {<<>>}
  ELSE LET rest == RecVals(e, fs, j + 1, d) IN
       {<<[id |-> fs[j].id, v |-> v]>> \o r : v \in Vals(e, fs[j].t, d - 1), r \in rest}

\* OptSim: smallest reflexive, symmetric, structural relation with  opt v ~ null  (and anything ~ null under opt positions)
RECURSIVE OptSim(_, _)
OptSim(a, b) ==
  \/ a = b
  \/ (a.k = "null" /\ b.k = "opt") \/ (a.k = "opt" /\ b.k = "null")
  \/ (a.k = "opt" /\ b.k = "opt" /\ OptSim(a.v, b.v))
  \/ (a.k = "vec" /\ b.k = "vec" /\ Len(a.vs) = Len(b.vs) /\ \A i \in DOMAIN a.vs : OptSim(a.vs[i], b.vs[i]))
  \/ (a.k = "rec" /\ b.k = "rec" /\ Len(a.fs) = Len(b.fs) /\ \A i \in DOMAIN a.fs : a.fs[i].id = b.fs[i].id /\ OptSim(a.fs[i].v, b.fs[i].v))
  \/ (a.k = "var" /\ b.k = "var" /\ a.id = b.id /\ OptSim(a.v, b.v))
====
