---- MODULE MC_Builder ----
\* Every history of at most MaxOps builder operations over a small alphabet (typed / untyped / native
\* arguments, an ill-typed argument, serialize at any point).  Checked on the specification:
\*   EncoderRefines   the specification's encoder applied to the accepted arguments satisfies Denotes
\*                    at every point of every history (multi-argument messages over one shared table)
\*   RejectKeeps      a rejected argument does not change the builder
\* Every complete history is emitted and replayed on the real IDLBuilder (and a twin).
EXTENDS Builder, Json
CONSTANTS MaxOps
P(k) == PrimId(k)
Fd(i, t) == [id |-> <<0, i>>, t |-> t]
TEnv == [o |-> [k |-> "opt", a |-> P("nat")],
         v_l |-> [k |-> "opt", a |-> "v_ln"],
         v_ln |-> [k |-> "record", fs |-> <<Fd(0, P("int")), Fd(1, "v_l")>>],
         r |-> [k |-> "record", fs |-> <<Fd(0, P("nat")), Fd(1, "o")>>],
         vr |-> [k |-> "vec", a |-> "r"],
         v |-> [k |-> "variant", fs |-> <<Fd(0, P("null")), Fd(1, "r")>>]] @@ PrimEnv
RecV == [k |-> "rec", fs |-> <<[id |-> <<0, 0>>, v |-> PNat(300)], [id |-> <<0, 1>>, v |-> [k |-> "opt", v |-> PNat(0)]] >>]
ListV == [k |-> "opt", v |-> [k |-> "rec", fs |-> <<[id |-> <<0, 0>>, v |-> PInt(-65)], [id |-> <<0, 1>>, v |-> Null] >>]]
Typed(t, v) == [op |-> "typed", t |-> t, v |-> v, n |-> ""]
Ops == { Typed(P("nat"), PNat(300)), Typed("r", RecV), Typed("vr", [k |-> "vec", vs |-> <<RecV, RecV>>]),
         Typed("v", [k |-> "var", id |-> <<0, 1>>, v |-> RecV]), Typed("v_l", ListV), Typed(P("reserved"), PNat(0)),
         Typed(P("nat"), [k |-> "text", cps |-> <<97>>]),                         \* ill-typed
         Typed("r", [k |-> "rec", fs |-> <<[id |-> <<0, 0>>, v |-> PNat(300)]>>]),  \* ill-typed: missing field
         [op |-> "untyped", t |-> "r", v |-> RecV, n |-> ""],
         [op |-> "native", t |-> "", v |-> Null, n |-> "Vec<Option<u8>>"],
         [op |-> "native", t |-> "", v |-> Null, n |-> "List"],
         [op |-> "ser", t |-> "", v |-> Null, n |-> ""] }
VARIABLES st, hist
vars == <<st, hist>>
Init == st = BNew /\ hist = <<>>
Next == /\ Len(hist) < MaxOps
        /\ \E o \in Ops :
             /\ hist' = Append(hist, o)
             /\ IF o.op \in {"typed", "untyped"} THEN st' = BArg(st, TEnv, o).st ELSE st' = st    \* native arguments are supplied by the harness
Spec == Init /\ [][Next]_vars
EncoderRefines == Denotes(TEnv, SpecBytes(TEnv, st.args), st.args)
RejectKeeps == [][\A o \in Ops : (hist' = Append(hist, o) /\ o.op = "typed" /\ ~BAccepts(TEnv, o)) => st' = st]_vars
Emit == Len(hist) = MaxOps /\ hist[MaxOps].op = "ser" =>
          PrintT(<<"CASE", ToJson([env |-> TEnv, ops |-> hist])>>)
====
