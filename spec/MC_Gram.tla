---- MODULE MC_Gram ----
\* C13 input space: a bounded sentence generator for the text grammars of candid_parser
\* (grammar.lalrpop: value arguments, and programs/types/tests).  State: a sentential form; the
\* leftmost non-terminal is expanded; every complete sentence of at most MaxLen tokens is emitted,
\* and from every sentence all single-token mutants (delete / duplicate / replace by any token).
\* Invariant WellFormedSentence: a generated (unmutated) sentence contains no non-terminal and
\* respects the bound - the generator itself is total.
EXTENDS Naturals, Sequences, FiniteSets, TLC, Json
CONSTANTS MaxLen, Start, Mutate

ValNT == {"Args", "Arg", "AnnVal", "AnnVals", "AnnValsSemi", "RecFields", "RecField", "Field", "VarField", "Num", "VTyp", "FieldId", "Name"}
TypNT == {"Prog", "Defs", "Def", "Actor", "ActorTyp", "Meths", "Meth", "FuncTyp", "TupTyp", "ArgTyps", "ArgTyp", "Typ", "FTs", "FT", "VTs", "VT", "Mode", "Test", "Asserts", "Assert", "Input", "InitArgs"}
NT == ValNT \cup TypNT
Prod(n) ==
  CASE n = "Args" -> {<<"(", "AnnVals", ")">>}
    [] n = "AnnVals" -> {<<>>, <<"AnnVal">>, <<"AnnVal", ",">>, <<"AnnVal", ",", "AnnVals">>}
    [] n = "AnnValsSemi" -> {<<>>, <<"AnnVal">>, <<"AnnVal", ";">>, <<"AnnVal", ";", "AnnValsSemi">>}
    [] n = "AnnVal" -> {<<"Arg">>, <<"Arg", ":", "VTyp">>}
    [] n = "Arg" -> {<<"bool">>, <<"Num">>, <<"sign", "Num">>, <<"float">>, <<"text">>, <<"blob", "text">>, <<"null">>,
                     <<"opt", "Arg">>, <<"vec", "{", "AnnValsSemi", "}">>, <<"record", "{", "RecFields", "}">>,
                     <<"variant", "{", "VarField", "}">>, <<"principal", "text">>, <<"service", "text">>,
                     <<"func", "text", ".", "Name">>, <<"(", "AnnVal", ")">>}
    [] n = "RecFields" -> {<<>>, <<"RecField">>, <<"RecField", ";">>, <<"RecField", ";", "RecFields">>}
    [] n = "RecField" -> {<<"Field">>, <<"AnnVal">>}
    [] n = "Field" -> {<<"FieldId", "=", "AnnVal">>, <<"Name", "=", "AnnVal">>}
    [] n = "VarField" -> {<<"Field">>, <<"Name">>, <<"FieldId">>}
    [] n = "Num" -> {<<"decimal">>, <<"hex">>}
    [] n = "FieldId" -> {<<"decimal">>, <<"hex">>}
    [] n = "Name" -> {<<"id">>, <<"text">>}
    [] n = "VTyp" -> {<<"id">>, <<"opt", "id">>, <<"vec", "id">>, <<"blob">>, <<"record", "{", "}">>, <<"principal">>}
    [] n = "Prog" -> {<<"Defs">>, <<"Defs", "Actor">>}
    [] n = "InitArgs" -> {<<"Defs", "TupTyp">>}
    [] n = "Defs" -> {<<>>, <<"Def", ";">>, <<"Def", ";", "Defs">>, <<"Def">>}
    [] n = "Def" -> {<<"type", "id", "=", "Typ">>, <<"import", "text">>, <<"import", "service", "text">>}
    [] n = "Actor" -> {<<"service", ":", "ActorTyp">>, <<"service", "id", ":", "ActorTyp">>, <<"service", ":", "TupTyp", "->", "ActorTyp">>, <<"service", ":", "id">>, <<"service", ":", "TupTyp", "->", "id">>}
    [] n = "ActorTyp" -> {<<"{", "Meths", "}">>}
    [] n = "Meths" -> {<<>>, <<"Meth">>, <<"Meth", ";">>, <<"Meth", ";", "Meths">>}
    [] n = "Meth" -> {<<"Name", ":", "FuncTyp">>, <<"Name", ":", "id">>}
    [] n = "FuncTyp" -> {<<"TupTyp", "->", "TupTyp">>, <<"TupTyp", "->", "TupTyp", "Mode">>}
    [] n = "TupTyp" -> {<<"(", "ArgTyps", ")">>}
    [] n = "ArgTyps" -> {<<>>, <<"ArgTyp">>, <<"ArgTyp", ",">>, <<"ArgTyp", ",", "ArgTyps">>}
    [] n = "ArgTyp" -> {<<"Typ">>, <<"Name", ":", "Typ">>}
    [] n = "Typ" -> {<<"id">>, <<"opt", "Typ">>, <<"vec", "Typ">>, <<"blob">>, <<"principal">>, <<"record", "{", "FTs", "}">>, <<"variant", "{", "VTs", "}">>,
                     <<"func", "FuncTyp">>, <<"service", "ActorTyp">>}
    [] n = "FTs" -> {<<>>, <<"FT">>, <<"FT", ";">>, <<"FT", ";", "FTs">>}
    [] n = "FT" -> {<<"decimal", ":", "Typ">>, <<"hex", ":", "Typ">>, <<"Name", ":", "Typ">>, <<"Typ">>}
    [] n = "VTs" -> {<<>>, <<"VT">>, <<"VT", ";">>, <<"VT", ";", "VTs">>}
    [] n = "VT" -> {<<"decimal", ":", "Typ">>, <<"Name", ":", "Typ">>, <<"Name">>, <<"decimal">>}
    [] n = "Mode" -> {<<"query">>, <<"oneway">>, <<"composite_query">>}
    [] n = "Test" -> {<<"Defs", "Asserts">>}
    [] n = "Asserts" -> {<<>>, <<"Assert", ";">>, <<"Assert", ";", "Asserts">>}
    [] n = "Assert" -> {<<"assert", "Input", ":", "TupTyp">>, <<"assert", "Input", "!:", "TupTyp">>, <<"assert", "Input", "==", "Input", ":", "TupTyp">>,
                        <<"assert", "Input", "!=", "Input", ":", "TupTyp">>, <<"assert", "Input", ":", "TupTyp", "text">>}
    [] n = "Input" -> {<<"text">>, <<"blob", "text">>}
FirstNT(s) == CHOOSE i \in DOMAIN s : s[i] \in NT /\ \A j \in 1..(i-1) : s[j] \notin NT
HasNT(s) == \E i \in DOMAIN s : s[i] \in NT
\* minimal number of terminals a symbol still needs (prunes hopeless forms)
MinT(x) == CASE x \notin NT -> 1 [] x \in {"AnnVals", "AnnValsSemi", "RecFields", "Defs", "Meths", "ArgTyps", "FTs", "VTs", "Asserts", "Prog", "Test"} -> 0
             [] x \in {"Args", "TupTyp", "ActorTyp", "InitArgs"} -> 2 [] x \in {"Field", "Meth", "FuncTyp"} -> 3 [] x = "Def" -> 2 [] x = "Actor" -> 3 [] x = "Assert" -> 4 [] OTHER -> 1
RECURSIVE MinLenOf(_, _)
MinLenOf(s, i) == IF i > Len(s) THEN 0 ELSE MinT(s[i]) + MinLenOf(s, i + 1)
Toks == {"(", ")", "{", "}", ";", ",", "=", ":", ".", "->", "opt", "vec", "record", "variant", "blob", "principal", "service", "func", "null", "bool", "decimal", "hex", "float", "text", "id", "sign",
         "type", "import", "query", "oneway", "composite_query", "assert", "==", "!=", "!:"}
VARIABLES form, mutated
Init == form = <<Start>> /\ mutated = FALSE
Expand == /\ HasNT(form) /\ ~mutated
          /\ LET i == FirstNT(form) IN
             \E rhs \in Prod(form[i]) :
                LET f2 == SubSeq(form, 1, i - 1) \o rhs \o SubSeq(form, i + 1, Len(form)) IN
                /\ MinLenOf(f2, 1) <= MaxLen
                /\ form' = f2
          /\ UNCHANGED mutated
Mut == /\ Mutate /\ ~HasNT(form) /\ ~mutated /\ Len(form) > 0
       /\ \E i \in DOMAIN form :
            \/ form' = SubSeq(form, 1, i - 1) \o SubSeq(form, i + 1, Len(form))
            \/ form' = SubSeq(form, 1, i) \o SubSeq(form, i, Len(form))
            \/ \E t \in Toks : t # form[i] /\ form' = [form EXCEPT ![i] = t]
       /\ mutated' = TRUE
Next == Expand \/ Mut
Spec == Init /\ [][Next]_<<form, mutated>>
WellFormedSentence == (~HasNT(form) /\ ~mutated) => (Len(form) <= MaxLen /\ \A i \in DOMAIN form : form[i] \in Toks)
Emit == ~HasNT(form) => PrintT(<<"CASE", ToJson([toks |-> form, start |-> Start, mut |-> mutated])>>)
====
