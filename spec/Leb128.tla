---- MODULE Leb128 ----
\* (S)LEB128 exactly as in spec/Candid.md "Notation": numbers are abstract
\* [k |-> "num", neg, bits] with bits LSB-first and no trailing zero.
EXTENDS Bits

\* read groups starting at p (1-based): [ok, pos (first unread), gs (7-bit payloads)]
RECURSIVE LebGroups(_, _, _)
LebGroups(b, p, acc) ==
  IF p > Len(b) THEN [ok |-> FALSE, pos |-> p, gs |-> acc]
  ELSE IF b[p] >= 128 THEN LebGroups(b, p + 1, Append(acc, b[p] - 128))
       ELSE [ok |-> TRUE, pos |-> p + 1, gs |-> Append(acc, b[p])]

RECURSIVE NatG(_, _, _)
NatG(gs, i, acc) == IF i = 0 THEN acc
                    ELSE NatG(gs, i - 1, IF acc >= 8388608 THEN BIG ELSE acc * 128 + gs[i])
NatOfGroups(gs) == NatG(gs, Len(gs), 0)      \* small natural, capped at BIG

Num(neg, bits) == [k |-> "num", neg |-> neg, bits |-> bits]
NumOfLeb(gs) == Num(FALSE, Trim(GsBits(gs, 1)))
NumOfSleb(gs) ==
  LET all == GsBits(gs, 1)
      neg == gs[Len(gs)] >= 64
  IN IF ~neg THEN Num(FALSE, Trim(all))
     ELSE Num(TRUE, Trim(AddOneW(Invert(all), 1)) )
\* note: for a negative number, two's complement of the sign-extended word; the magnitude
\* 2^(7k) (all payload bits zero, sign set) needs one more bit than the word:
NumOfSlebX(gs) ==
  LET all == GsBits(gs, 1)
      neg == gs[Len(gs)] >= 64
  IN IF ~neg THEN Num(FALSE, Trim(all))
     ELSE IF \A i \in DOMAIN all : all[i] = 0 THEN Num(TRUE, Append(all, 1))   \* cannot happen (sign bit is a payload bit)
     ELSE Num(TRUE, Trim(AddOneW(Invert(all), 1)))

\* small signed value of sleb groups (type indices, opcodes); +-BIG when large
RECURSIVE StripSign(_)
StripSign(gs) ==
  LET n == Len(gs) IN
  IF n > 1 /\ ((gs[n] = 0 /\ gs[n-1] < 64) \/ (gs[n] = 127 /\ gs[n-1] >= 64))
  THEN StripSign(SubSeq(gs, 1, n - 1)) ELSE gs
SmallSigned(gs0) ==
  LET gs == StripSign(gs0)
      n == Len(gs)
  IN IF n > 4 THEN (IF gs[n] >= 64 THEN 0 - BIG ELSE BIG)
     ELSE LET u == NatG(gs, n, 0) IN IF gs[n] >= 64 THEN u - 128^n ELSE u

U32OfGroups(gs) ==
  LET bs == Trim(GsBits(gs, 1))
  IN IF Len(bs) > 32 THEN [ok |-> FALSE]
     ELSE [ok |-> TRUE, v |-> <<BitsVal(bs, 17, 32), BitsVal(bs, 1, 16)>>]

\* ---- encoders (minimal forms)
RECURSIVE GroupsOfBits(_)
\* split an LSB-first bit list into 7-bit payloads (last one padded)
GroupsOfBits(bs) == IF Len(bs) <= 7 THEN <<BitsVal(bs, 1, 7)>>
                    ELSE <<BitsVal(bs, 1, 7)>> \o GroupsOfBits(SubSeq(bs, 8, Len(bs)))
BytesOfGroups(gs) == [i \in 1..Len(gs) |-> IF i < Len(gs) THEN gs[i] + 128 ELSE gs[i]]
MinLeb(bits) == BytesOfGroups(GroupsOfBits(bits))            \* bits trimmed; <<>> is 0
\* minimal SLEB128 of a number: smallest k with -2^(7k-1) <= v < 2^(7k-1)
SlebWidth(n) ==     \* number of groups
  LET m == Len(n.bits) IN
  IF ~n.neg THEN (m \div 7) + 1                       \* need m+1 bits
  ELSE IF \A i \in 1..(m-1) : n.bits[i] = 0 THEN ((m - 1) \div 7) + 1   \* -2^(m-1): needs m bits
       ELSE (m \div 7) + 1
SlebWord(n, w) == IF ~n.neg THEN PadTo(n.bits, w) ELSE AddOneW(Invert(PadTo(n.bits, w)), 1)
RECURSIVE GroupsOfWord(_, _, _)
GroupsOfWord(word, i, k) == IF i > k THEN <<>> ELSE <<BitsVal(word, 7*(i-1) + 1, 7*i)>> \o GroupsOfWord(word, i + 1, k)
MinSlebK(n, k) == BytesOfGroups(GroupsOfWord(SlebWord(n, 7 * k), 1, k))
MinSleb(n) == MinSlebK(n, SlebWidth(n))
LebOfNat(n) == MinLeb(NatBits(n))          \* small n
SlebOfInt(i) == MinSleb(IF i >= 0 THEN Num(FALSE, NatBits(i)) ELSE Num(TRUE, NatBits(0 - i)))

\* ---- host ranges
InU64(n) == ~n.neg /\ Len(n.bits) <= 64
InU128(n) == ~n.neg /\ Len(n.bits) <= 128
InI128(n) == IF n.neg THEN Len(n.bits) <= 127 \/ (Len(n.bits) = 128 /\ \A i \in 1..127 : n.bits[i] = 0)
             ELSE Len(n.bits) <= 127
NumLess(a, b) == \* a < b on non-negative bit lists
  LET la == Len(a) lb == Len(b) IN
  IF la # lb THEN la < lb
  ELSE \E i \in 1..la : a[i] < b[i] /\ \A j \in (i+1)..la : a[j] = b[j]
====
