---- MODULE Trace_Msg ----
\* Referee for messages: C02 (decoding at expected types = Parse + Coerce), C03 (encoder output
\* is well-formed and reads back, by the specification's own decoder, as the declared types and values).
EXTENDS Wire, Json, IOUtils
Rec == ndJsonDeserialize(IOEnv.TRACE)
VARIABLES l
Init == l = 1
Bad(tag) == PrintT(<<"MISMATCH", l, tag>>)
IsOk(o) == "ok" \in DOMAIN o
IsErr(o) == "err" \in DOMAIN o
DecCase(r) ==
  LET d == Decode(r.blob, r.env, r.types) IN
  IF IsBomb(d) THEN TRUE       \* more values than the specification is willing to materialise: not judged
  ELSE \A api \in {"real", "step"} :
         IF d.ok THEN (IF IsOk(r[api]) /\ r[api].ok = d.v THEN TRUE
                       ELSE IF IsOk(r[api]) THEN Bad(api \o ":wrong_value")
                       ELSE IF IsErr(r[api]) THEN Bad(api \o ":rejects_valid") ELSE Bad(api \o ":panic"))
         ELSE (IF IsErr(r[api]) THEN TRUE ELSE IF IsOk(r[api]) THEN Bad(api \o ":accepts_invalid") ELSE Bad(api \o ":panic"))
EncCase(r) ==
  IF "encfail" \in DOMAIN r THEN Bad("enc:encoder_failed")
  ELSE LET m == ParseNoReplace(r.blob) IN
  IF ~m.ok THEN Bad("enc:not_wellformed")
  ELSE IF Len(m.types) # Len(r.wts) THEN Bad("enc:arity")
  ELSE /\ (IF \A i \in DOMAIN r.wts : EqQ(m.env @@ r.env, m.types[i], r.wts[i]) THEN TRUE ELSE Bad("enc:types_differ"))
       /\ (IF m.vals = r.vals THEN TRUE ELSE Bad("enc:values_differ"))
       /\ (IF r.again = r.blob THEN TRUE ELSE Bad("enc:nondeterministic"))
       /\ (IF IsOk(r.untyped)
           THEN LET u == ParseNoReplace(r.untyped.ok) IN
                IF u.ok /\ u.vals = r.rawvals THEN TRUE ELSE Bad("enc:untyped_values_differ")
           ELSE TRUE)
\* C06: totality (no panic in any entry point or configuration) and the allocation bound under a quota
\*   peak <= C0 + C1 * |input| + C2 * q      (constants calibrated on the pinned tree, see DESIGN.md)
C0 == 8388608
C1 == 256
C2 == 64
NoPanic(o, what) == IF "panic" \in DOMAIN o THEN Bad("panic:" \o what \o "@" \o o.panic) ELSE TRUE
Bounded(o, len, what) == IF o.d >= 0 /\ "peak" \in DOMAIN o /\ o.peak > C0 + C1 * len + C2 * o.d THEN Bad("alloc_bound:" \o what) ELSE TRUE
FuzzCase(r) ==
  /\ (IF "skip" \in DOMAIN r.real THEN TRUE ELSE DecCase(r))
  /\ NoPanic(r.any, "from_bytes")
  /\ \A i \in DOMAIN r.runs : NoPanic(r.runs[i], "untyped") /\ Bounded(r.runs[i], r.len, "untyped")
  /\ \A i \in DOMAIN r.native : NoPanic(r.native[i], "native") /\ Bounded(r.native[i], r.len, "native")
  /\ \A i \in DOMAIN r.small : NoPanic(r.small[i], "small_stack")
Next == /\ l <= Len(Rec)
        /\ LET r == Rec[l] IN
           IF "abort" \in DOMAIN r THEN Bad("abort")
           ELSE CASE r.kind = "dec" -> DecCase(r)
                  [] r.kind = "enc" -> EncCase(r)
                  [] r.kind = "fuzz" -> FuzzCase(r)
        /\ l' = l + 1
Spec == Init /\ [][Next]_l
Post == PrintT(<<"CONSUMED", TLCGet("stats").diameter - 1, Len(Rec)>>)
====
