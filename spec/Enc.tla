---- MODULE Enc ----
\* spec/Candid.md "Binary Format": the encoder  B(kv* : <datatype>*) = "DIDL" T*(<datatype>*) I*(<datatype>*) M(kv*)
\* on type graphs.  `ord` is the table layout: a sequence of composite node ids (it must contain
\* every composite node reachable from the argument types; it may contain more, and may list
\* structurally equal nodes separately - every such layout is a legal message).
EXTENDS Values, SequencesExt
IsComp(n) == n.k \in {"opt", "vec", "record", "variant", "func", "service"}
PrimCode(k) == CASE k = "null" -> -1 [] k = "bool" -> -2 [] k = "nat" -> -3 [] k = "int" -> -4
                 [] k = "nat8" -> -5 [] k = "nat16" -> -6 [] k = "nat32" -> -7 [] k = "nat64" -> -8
                 [] k = "int8" -> -9 [] k = "int16" -> -10 [] k = "int32" -> -11 [] k = "int64" -> -12
                 [] k = "float32" -> -13 [] k = "float64" -> -14 [] k = "text" -> -15 [] k = "reserved" -> -16
                 [] k = "empty" -> -17 [] k = "principal" -> -24
RECURSIVE ReachN(_, _, _)
ReachN(e, done, todo) ==
  IF todo = {} THEN done
  ELSE LET t2 == {Unf(e, x) : x \in todo}
           new == (UNION {NodeRefs(e[x]) : x \in t2}) IN
       ReachN(e, done \cup t2, {Unf(e, y) : y \in new} \ (done \cup t2))
CompNodes(e, ts) == {x \in ReachN(e, {}, SeqSet(ts)) : IsComp(e[x])}
PosIn(ord, id) == CHOOSE i \in DOMAIN ord : ord[i] = id
\* I(t)
EncI(e, ord, t) == LET u == Unf(e, t) IN
                   IF IsComp(e[u]) THEN SlebOfInt(PosIn(ord, u) - 1) ELSE SlebOfInt(PrimCode(e[u].k))
LebId(id) == MinLeb(Trim(U32Bits(id)))
ModeCode(m) == CASE m = "query" -> 1 [] m = "oneway" -> 2 [] OTHER -> 3
\* T(node)
EncT(e, ord, n) ==
  CASE n.k = "opt" -> SlebOfInt(-18) \o EncI(e, ord, n.a)
    [] n.k = "vec" -> SlebOfInt(-19) \o EncI(e, ord, n.a)
    [] n.k \in {"record", "variant"} ->
         SlebOfInt(IF n.k = "record" THEN -20 ELSE -21) \o LebOfNat(Len(n.fs)) \o
         Cat([j \in DOMAIN n.fs |-> LebId(n.fs[j].id) \o EncI(e, ord, n.fs[j].t)])
    [] n.k = "func" ->
         SlebOfInt(-22) \o LebOfNat(Len(n.args)) \o Cat([i \in DOMAIN n.args |-> EncI(e, ord, n.args[i])])
                        \o LebOfNat(Len(n.rets)) \o Cat([i \in DOMAIN n.rets |-> EncI(e, ord, n.rets[i])])
                        \o LebOfNat(Len(n.modes)) \o [i \in DOMAIN n.modes |-> ModeCode(n.modes[i])]
    [] n.k = "service" ->
         SlebOfInt(-23) \o LebOfNat(Len(n.ms)) \o
         Cat([j \in DOMAIN n.ms |-> LebOfNat(Len(n.ms[j].name)) \o n.ms[j].name \o EncI(e, ord, n.ms[j].t)])
\* M(v : t)
RECURSIVE EncM(_, _, _)
EncM(e, v, t) ==
  LET x == N(e, t) IN
  CASE x.k \in {"null", "reserved"} -> <<>>
    [] x.k = "bool" -> <<v.b>>
    [] x.k = "nat" -> MinLeb(v.bits)
    [] x.k = "int" -> MinSleb(v)
    [] FixWidth(x.k) > 0 -> v.bytes
    [] x.k = "text" -> LET u == Utf8Enc(v.cps) IN LebOfNat(Len(u)) \o u
    [] x.k \in {"principal", "service"} -> <<1>> \o LebOfNat(Len(v.b)) \o v.b
    [] x.k = "func" -> <<1, 1>> \o LebOfNat(Len(v.b)) \o v.b \o LebOfNat(Len(v.m)) \o v.m
    [] x.k = "opt" -> IF v.k = "null" THEN <<0>> ELSE <<1>> \o EncM(e, v.v, x.a)
    [] x.k = "vec" -> LebOfNat(Len(v.vs)) \o Cat([i \in DOMAIN v.vs |-> EncM(e, v.vs[i], x.a)])
    [] x.k = "record" -> Cat([j \in DOMAIN x.fs |-> EncM(e, v.fs[j].v, x.fs[j].t)])
    [] x.k = "variant" -> LET i == CHOOSE i \in DOMAIN x.fs : x.fs[i].id = v.id IN LebOfNat(i - 1) \o EncM(e, v.v, x.fs[i].t)
Magic == <<68, 73, 68, 76>>
EncB(e, ord, ts, vs) ==
  Magic \o LebOfNat(Len(ord)) \o Cat([i \in DOMAIN ord |-> EncT(e, ord, e[ord[i]])])
        \o LebOfNat(Len(ts)) \o Cat([i \in DOMAIN ts |-> EncI(e, ord, ts[i])])
        \o Cat([i \in DOMAIN ts |-> EncM(e, vs[i], ts[i])])
CanonOrd(e, ts) == SetToSeq(CompNodes(e, ts))
====
