---- MODULE Trace_Bind ----
\* C19 referee: each generator returned (no panic), twice the same text; the text lexes completely in the
\* target language (TargetLex.tla), no injection marker surfaces as a code token, and every method of
\* the main service is mentioned exactly once (as a string token in js/ts/rs, as an identifier in mo).
EXTENDS TargetLex, Json, IOUtils
Rec == ndJsonDeserialize(IOEnv.TRACE)
Targets == {"js", "ts", "mo", "rs"}
KwType == <<116, 121, 112, 101>>                              \* "type"
KwInterface == <<105, 110, 116, 101, 114, 102, 97, 99, 101>>   \* "interface"
One(r, t) ==
  LET g == r.gens[t] IN
  IF "skip" \in DOMAIN g THEN {}
  ELSE IF "panic" \in DOMAIN g THEN {t \o ":panic@" \o g.panic}
  ELSE (IF g.same = 1 THEN {} ELSE {t \o ":nondeterministic"})
       \cup LET defs == IF t \in {"ts", "mo"} /\ "defs" \in DOMAIN r THEN {r.defs[i] : i \in DOMAIN r.defs} ELSE {}
                watch == (IF t = "mo" THEN {r.methods[i] : i \in DOMAIN r.methods} ELSE {}) \cup defs \cup (IF defs # {} THEN {KwType, KwInterface} ELSE {})
                lx == Lex(g.text, t, watch)
                \* closure: a definition name of the source that occurs as an identifier token outside a declaration
                \* (`type D`, `interface D`) must be declared somewhere in the output
                declared == {lx.ids[i + 1] : i \in {i \in 1..(Len(lx.ids) - 1) : lx.ids[i] \in {KwType, KwInterface}}}
                used == {lx.ids[i] : i \in {i \in DOMAIN lx.ids : lx.ids[i] \in defs /\ (i = 1 \/ lx.ids[i - 1] \notin {KwType, KwInterface})}}
            IN (IF used \subseteq declared THEN {} ELSE {t \o ":references_undeclared_type"}) \cup (IF lx.ok THEN {} ELSE {t \o ":unterminated:" \o lx.mode})
               \cup (IF \E i \in DOMAIN lx.ids : IsMarker(lx.ids[i]) THEN {t \o ":injected_token"} ELSE {})
               \cup (IF r.count_methods = 1
                     THEN UNION {LET m == r.methods[i]
                                     n == IF t = "mo" THEN Count(lx.ids, m) ELSE Count(lx.strs, m)
                                 IN IF n = 1 \/ (t = "rs" /\ n >= 1) THEN {} ELSE IF n = 0 THEN {t \o ":method_missing"} ELSE {t \o ":method_repeated"} : i \in DOMAIN r.methods}
                     ELSE {})
Tags(r) == IF "abort" \in DOMAIN r THEN {"abort"} ELSE IF r.kind = "bind" THEN UNION {One(r, t) : t \in Targets} ELSE {}
V == TLCEval([i \in 1..Len(Rec) |-> Tags(Rec[i])])
VARIABLES l
Init == l = 1
Next == /\ l <= Len(Rec)
        /\ \A t \in V[l] : PrintT(<<"MISMATCH", l, t>>)
        /\ l' = l + 1
Spec == Init /\ [][Next]_l
Post == PrintT(<<"CONSUMED", TLCGet("stats").diameter - 1, Len(Rec)>>)
====
