---- MODULE MC_Principal ----
\* C16 generator: byte strings (exhaustive up to MaxLen, one per length/class beyond), their
\* canonical text, and every single-character edit of that text; checks the bijection theorems
\* on the specification itself: Accept(Canon(b)) = b, and every accepted edit is Canon of what it returns.
EXTENDS Crc32Base32, Json
CONSTANTS MaxLen, LongLens, Classes
Reps == {97, 122, 65, 90, 50, 55, 48, 49, 56, 57, 45, 32, 233, 61, 0, 10, 13, 127}
VARIABLES b, txt, ph
vars == <<b, txt, ph>>
Init == b = <<>> /\ txt = <<>> /\ ph = "bytes"
Grow == ph = "bytes" /\ Len(b) < MaxLen /\ \E c \in 0..255 : b' = Append(b, c) /\ UNCHANGED <<txt, ph>>
Long == ph = "bytes" /\ b = <<>> /\ \E n \in LongLens, c \in Classes, d \in Classes :
            b' = [i \in 1..n |-> IF i % 2 = 1 THEN c ELSE d] /\ ph' = "long" /\ UNCHANGED txt
\* from a byte string of at most 29 bytes: the canonical text, then one edit
ToText == ph \in {"bytes", "long"} /\ Len(b) <= 29 /\ (Len(b) <= 1 \/ ph = "long") /\ txt' = Canon(b) /\ ph' = "text" /\ UNCHANGED b
Edit == ph = "text" /\ ph' = "edit" /\ UNCHANGED b /\
        \/ \E i \in DOMAIN txt, c \in Reps : txt' = [txt EXCEPT ![i] = c]
        \/ \E i \in DOMAIN txt : txt' = SubSeq(txt, 1, i - 1) \o SubSeq(txt, i + 1, Len(txt))
        \/ \E i \in 1..(Len(txt) + 1), c \in {45, 97, 50} : txt' = SubSeq(txt, 1, i - 1) \o <<c>> \o SubSeq(txt, i, Len(txt))
        \/ \E i \in DOMAIN txt : txt' = SubSeq(txt, 1, i - 1)
        \/ \E i \in DOMAIN txt : txt' = [txt EXCEPT ![i] = IF @ >= 97 /\ @ <= 122 THEN @ - 32 ELSE @]
        \/ txt' = [i \in DOMAIN txt |-> IF txt[i] >= 97 /\ txt[i] <= 122 THEN txt[i] - 32 ELSE txt[i]]
        \/ txt' = NoDash(txt)
        \* the byte that differs from the original only in bit 5 (what a case fold by masking confuses), any character
        \/ \E i \in DOMAIN txt : txt' = [txt EXCEPT ![i] = IF (@ \div 32) % 2 = 1 THEN @ - 32 ELSE @ + 32]
Next == Grow \/ Long \/ ToText \/ Edit
Spec == Init /\ [][Next]_vars
Bijection == ph = "text" => LET a == Accept(txt) IN a.ok /\ a.bytes = b
AcceptedIsCanon == ph = "edit" => LET a == Accept(txt) IN a.ok => Canon(a.bytes) = [i \in DOMAIN txt |-> Lower(txt[i])]
Emit == /\ (ph \in {"bytes", "long"} => PrintT(<<"CASE", ToJson([b |-> b])>>))
        /\ (ph \in {"text", "edit"} => PrintT(<<"CASE", ToJson([s |-> txt])>>))
====
