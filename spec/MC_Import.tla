---- MODULE MC_Import ----
\* C14, import leg: a fixed library of files (plain definitions, a service, a service behind a name, a
\* duplicate definition, a service constructor, nested plain and service imports, a missing file) and
\* every root file with at most MaxImp imports (plain or `service`), one of four definition lists and one
\* of five main services.  Checked on the specification: the verdict does not depend on the order of
\* the imports, and importing a file twice changes nothing.  Every root is emitted and checked by the
\* real check_file on files written to disk.
EXTENDS Naturals, Sequences, FiniteSets, TLC, Json
CONSTANTS MaxImp
LabIdOf(l) == 0
INSTANCE Imports WITH LabId <- LabIdOf
Prim(n) == [k |-> "prim", n |-> n]
Var(n) == [k |-> "var", n |-> n]
Arg(n, t) == [n |-> n, t |-> t]
F0 == [k |-> "func", args |-> <<>>, rets |-> <<>>, modes |-> <<>>]
M(n, t) == [name |-> n, t |-> t]
Serv(ms) == [k |-> "service", ms |-> ms]
Def(n, b) == [name |-> n, body |-> b]
None == [k |-> "none"]
File(imps, defs, actor) == [imports |-> imps, p |-> [defs |-> defs, actor |-> actor]]
Imp(s, f) == [svc |-> s, f |-> f]
Lib == [a |-> File(<<>>, <<Def("T", Prim("nat"))>>, Serv(<<M("f", F0)>>)),
        b |-> File(<<>>, <<Def("U", Prim("text"))>>, Serv(<<M("g", [k |-> "func", args |-> <<Arg("", Var("U"))>>, rets |-> <<>>, modes |-> <<>>])>>)),
        c |-> File(<<>>, <<Def("S", Serv(<<M("f", F0), M("h", F0)>>))>>, Var("S")),
        d |-> File(<<>>, <<Def("T", Prim("text"))>>, None),
        e |-> File(<<>>, <<>>, [k |-> "class", args |-> <<Arg("", Prim("nat"))>>, t |-> Serv(<<M("k", F0)>>)]),
        n |-> File(<<Imp(TRUE, "b")>>, <<Def("W", Var("U"))>>, Serv(<<M("n", F0)>>)),
        m |-> File(<<Imp(FALSE, "a")>>, <<Def("X", Var("T"))>>, None)]
Targets == {"a", "b", "c", "d", "e", "n", "m", "z"}          \* z does not exist
RootDefs == {<<>>, <<Def("R", Prim("nat"))>>, <<Def("T", Prim("bool"))>>, <<Def("Y", Var("U"))>>}
RootActors == {None, Serv(<<M("r", F0)>>), Serv(<<M("f", F0)>>), [k |-> "class", args |-> <<Arg("", Prim("nat"))>>, t |-> Serv(<<M("r", F0)>>)], Var("S")}
VARIABLES imps, ph, root
vars == <<imps, ph, root>>
Init == imps = <<>> /\ ph = 0 /\ root = File(<<>>, <<>>, None)
AddImp == ph = 0 /\ Len(imps) < MaxImp /\ \E s \in BOOLEAN, f \in Targets : imps' = Append(imps, Imp(s, f)) /\ UNCHANGED <<ph, root>>
Finish == ph = 0 /\ \E d \in RootDefs, a \in RootActors : root' = File(imps, d, a) /\ ph' = 1 /\ UNCHANGED imps
Next == AddImp \/ Finish
Spec == Init /\ [][Next]_vars
FS(r) == ("r" :> r) @@ Lib
Verdict(r) == Accepts(FS(r), "r", SvcSpec(FS(r), "r"))
Rev(s) == [i \in DOMAIN s |-> s[Len(s) + 1 - i]]
OrderFree == ph = 1 => Verdict(root) = Verdict([root EXCEPT !.imports = Rev(@)])
TwiceSame == ph = 1 /\ Len(root.imports) >= 1 => Verdict(root) = Verdict([root EXCEPT !.imports = @ \o <<@[1]>>])
Emit == ph = 1 => PrintT(<<"CASE", ToJson([files |-> FS(root), root |-> "r", wf |-> IF Verdict(root) THEN 1 ELSE 0])>>)
====
