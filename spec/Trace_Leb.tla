---- MODULE Trace_Leb ----
\* C09 referee: each line is one byte string with what every decoder/encoder of the crate did.
EXTENDS Leb128, Json, IOUtils
Rec == ndJsonDeserialize(IOEnv.TRACE)

Kind(tag) == CASE tag \in {"nat", "m_nat", "m_natint", "m_valnat", "m_vecnat", "m_vecnatint", "m_mapu8nat", "m_optnat"} -> "nat"
               [] tag \in {"int", "m_int", "m_valint", "m_vecint", "m_maptextint"} -> "int"
               [] tag \in {"u128", "m_u128"} -> "u128"
               [] tag \in {"i128", "m_i128"} -> "i128"
InI64(n) == IF n.neg THEN Len(n.bits) <= 63 \/ (Len(n.bits) = 64 /\ \A i \in 1..63 : n.bits[i] = 0) ELSE Len(n.bits) <= 63
\* what the specification says about byte string b read by a decoder of the given kind
Exp(b, kind) ==
  LET g == LebGroups(b, 1, <<>>) IN
  IF ~g.ok THEN [err |-> 1]
  ELSE LET v == IF kind \in {"nat", "u128", "u64"} THEN NumOfLeb(g.gs) ELSE NumOfSleb(g.gs)
           inrange == CASE kind = "u128" -> InU128(v) [] kind = "i128" -> InI128(v)
                        [] kind = "u64" -> InU64(v) [] kind = "i64" -> InI64(v) [] OTHER -> TRUE
       IN IF inrange THEN [ok |-> v, n |-> g.pos - 1] ELSE [err |-> 1]
IsOk(o) == "ok" \in DOMAIN o
\* standalone decoders: value and bytes consumed
Same(obs, exp) == IF ~IsOk(exp) THEN "err" \in DOMAIN obs
                  ELSE IsOk(obs) /\ obs.ok = exp.ok /\ obs.n = exp.n
\* inside a message the whole input has to be consumed, `wrap` says how the value shows up
ExpMsg(b, kind) == LET e == Exp(b, kind) IN IF IsOk(e) /\ e.n = Len(b) THEN [ok |-> e.ok] ELSE [err |-> 1]
SameM(obs, exp, twice) == IF ~IsOk(exp) THEN "err" \in DOMAIN obs
                          ELSE IsOk(obs) /\ obs.ok = (IF twice THEN <<exp.ok, exp.ok>> ELSE exp.ok)
Standalone == {"nat", "int", "u128", "i128"}
Twice == {"m_vecnat", "m_vecint", "m_vecnatint"}
Kinds == {"nat", "int", "u128", "i128"}
ToMsg(e, b) == IF IsOk(e) /\ e.n = Len(b) THEN [ok |-> e.ok] ELSE [err |-> 1]
EncOK(r, E, tag) ==
  tag \notin DOMAIN r.enc \/
  LET e == r.enc[tag] IN
  IF tag \in {"nat", "m_nat", "u128", "m_u128"}
  THEN e = MinLeb(E["nat"].ok.bits)
  ELSE e = MinSleb(E["int"].ok)

VARIABLES l
Init == l = 1
Bad(tag) == PrintT(<<"MISMATCH", l, tag>>)
Next == /\ l <= Len(Rec)
        /\ LET r == Rec[l] IN
           IF "abort" \in DOMAIN r THEN Bad("abort")
           ELSE LET E == [k \in Kinds |-> Exp(r.b, k)]          \* evaluated once per line
                    M == [k \in Kinds |-> ToMsg(E[k], r.b)]
                IN
                /\ \A tag \in DOMAIN r.obs :
                     IF tag \in Standalone
                     THEN (IF Same(r.obs[tag], E[Kind(tag)]) THEN TRUE ELSE Bad(tag))
                     ELSE (IF SameM(r.obs[tag], M[Kind(tag)], tag \in Twice) THEN TRUE ELSE Bad(tag))
                /\ \A tag \in {"nat", "m_nat", "u128", "m_u128", "int", "m_int", "i128", "m_i128"} :
                     IF EncOK(r, E, tag) THEN TRUE ELSE Bad("enc_" \o tag)
        /\ l' = l + 1
Spec == Init /\ [][Next]_l
Post == PrintT(<<"CONSUMED", TLCGet("stats").diameter - 1, Len(Rec)>>)
====
