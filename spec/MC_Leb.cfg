SPECIFICATION Spec
CONSTANT MaxLen = 2
CONSTANT Family = FALSE
INVARIANT RoundTripNat
INVARIANT RoundTripInt
INVARIANT Minimal
INVARIANT NoNegZero
INVARIANT Emit
CHECK_DEADLOCK FALSE
