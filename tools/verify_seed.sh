#!/bin/bash
# verify_seed.sh <id> <dir with patch.diff and demo_<id>.rs> [crate=candid_parser]
# Confirms in a scratch worktree of /repo HEAD: (1) demo passes without the patch, (2) patch applies and
# the workspace test suite (demo absent) passes, (3) demo fails with the patch.  Removes the worktree.
set -u
ID=$1; DIR=$2; CRATE=${3:-candid_parser}
WT=/tmp/vs_$ID
export RUSTUP_TOOLCHAIN=stable-x86_64-unknown-linux-gnu CARGO_NET_OFFLINE=true
git -C /repo worktree remove --force $WT 2>/dev/null; rm -rf $WT
git -C /repo worktree add --detach $WT HEAD >/dev/null 2>&1 || { echo "worktree failed"; exit 2; }
export CARGO_TARGET_DIR=$WT/target
cd $WT
DEMO=$(ls $DIR/demo_*.rs | head -1); NAME=$(basename $DEMO .rs)
cp $DEMO rust/$CRATE/tests/$NAME.rs
echo "== demo without patch"
cargo nextest run -p $CRATE ${FEATURES:-} --test $NAME --offline --no-fail-fast 2>&1 | grep -E "Summary|FAIL|error" | head -20
rm rust/$CRATE/tests/$NAME.rs
echo "== apply patch"
git apply $DIR/patch.diff || { echo "PATCH DOES NOT APPLY"; cd /; git -C /repo worktree remove --force $WT; exit 1; }
git diff --stat | tail -3
echo "== suite with patch"
cargo nextest run --workspace --no-fail-fast --test-threads 8 --offline 2>&1 | grep -E "Summary|^\s+FAIL|error(\[|:)" | head -20
cp $DEMO rust/$CRATE/tests/$NAME.rs
echo "== demo with patch"
cargo nextest run -p $CRATE ${FEATURES:-} --test $NAME --offline --no-fail-fast 2>&1 | grep -E "Summary|^\s+FAIL|error(\[|:)" | head -20
cd /
git -C /repo worktree remove --force $WT
rm -rf $WT
