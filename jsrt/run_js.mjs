// Evaluates generated JavaScript bindings against a recording IDL builder (C17).
// usage: node run_js.mjs <in.ndjson> <out.ndjson>
// For every line with a "js" field the module text is evaluated (export const -> const) with a fresh
// mock `IDL`; the returned service / init types are dumped as type graphs in the conventions of
// DESIGN.md §3 together with the builder call trace.  The label hash is implemented here
// independently (spec: sum b_i * 223^(k-i) mod 2^32).
import fs from 'node:fs';
import readline from 'node:readline';

function hash(name) {
  const bytes = Buffer.from(name, 'utf8');
  let h = 0;
  for (const b of bytes) h = (Math.imul(h, 223) + b) >>> 0;
  return h;
}
const u32 = (n) => [n >>> 16, n & 0xffff];
function labelId(key) {
  const m = /^_(\d+)_$/.exec(key);
  if (m && Number(m[1]) <= 0xffffffff) return Number(m[1]);
  return hash(key);
}
function makeIDL() {
  let counter = 0; const trace = [];
  const node = (k, extra) => { const n = Object.assign({ id: 'j' + (counter++), k }, extra); trace.push({ ev: 'new', id: n.id, k }); return n; };
  const prim = (k) => ({ id: 'p_' + k, k, prim: true });
  const IDL = {
    Null: prim('null'), Bool: prim('bool'), Nat: prim('nat'), Int: prim('int'), Nat8: prim('nat8'), Nat16: prim('nat16'), Nat32: prim('nat32'), Nat64: prim('nat64'),
    Int8: prim('int8'), Int16: prim('int16'), Int32: prim('int32'), Int64: prim('int64'), Float32: prim('float32'), Float64: prim('float64'), Text: prim('text'),
    Reserved: prim('reserved'), Empty: prim('empty'), Principal: prim('principal'),
    Opt: (a) => node('opt', { a }), Vec: (a) => node('vec', { a }),
    Record: (o) => node('record', { fs: Object.entries(o) }), Variant: (o) => node('variant', { fs: Object.entries(o) }),
    Tuple: (...ts) => node('record', { fs: ts.map((t, i) => ['_' + i + '_', t]) }),
    Func: (args, rets, modes) => node('func', { args, rets, modes: modes || [] }),
    Service: (o) => node('service', { ms: Object.entries(o) }),
    Rec: () => { const n = node('rec', { filled: null });
      n.fill = (t) => { if (n.filled) throw new Error('Rec filled twice'); if (t === undefined) throw new Error('fill(undefined)'); n.filled = t; trace.push({ ev: 'fill', id: n.id, t: t.id }); };
      n.getType = () => { if (!n.filled) throw new Error('getType on unfilled Rec'); return n.filled; }; return n; },
  };
  return { IDL, trace };
}
function dump(roots) {
  const nodes = {}; const seen = new Set();
  const ref = (t) => { if (t === undefined || t === null || typeof t !== 'object' || !('k' in t)) throw new Error('undefined type reference'); walk(t); return t.id; };
  function walk(t) {
    if (seen.has(t.id)) return; seen.add(t.id);
    switch (t.k) {
      case 'opt': case 'vec': nodes[t.id] = { k: t.k, a: ref(t.a) }; break;
      case 'record': case 'variant': {
        const fs_ = t.fs.map(([l, x]) => ({ n: labelId(l), t: ref(x) })); fs_.sort((a, b) => a.n - b.n);
        for (let i = 1; i < fs_.length; i++) if (fs_[i].n === fs_[i - 1].n) throw new Error('duplicate field id ' + fs_[i].n);
        nodes[t.id] = { k: t.k, fs: fs_.map((f) => ({ id: u32(f.n), t: f.t })) }; break; }
      case 'func': nodes[t.id] = { k: 'func', args: t.args.map(ref), rets: t.rets.map(ref), modes: t.modes }; break;
      case 'service': {
        const ms = t.ms.map(([l, x]) => ({ name: Array.from(Buffer.from(l, 'utf8')), t: ref(x) }));
        ms.sort((a, b) => Buffer.compare(Buffer.from(a.name), Buffer.from(b.name)));
        nodes[t.id] = { k: 'service', ms }; break; }
      case 'rec': if (!t.filled) throw new Error('unfilled Rec'); nodes[t.id] = { k: 'alias', a: ref(t.filled) }; break;
      default: nodes[t.id] = { k: t.k };
    }
  }
  const ids = roots.map(ref);
  return { ids, nodes };
}
function evaluate(js) {
  const { IDL, trace } = makeIDL();
  const body = '"use strict";\n' + js.replace(/export const /g, 'const ') + '\nreturn { idlFactory: (typeof idlFactory === "undefined") ? undefined : idlFactory, init: (typeof init === "undefined") ? undefined : init };';
  let mod;
  try { mod = new Function(body)(); } catch (e) { return { error: 'load: ' + e.name + ': ' + e.message }; }
  try {
    if (!mod.idlFactory) return { error: 'no idlFactory' };
    const s = mod.idlFactory({ IDL });
    const i = mod.init ? mod.init({ IDL }) : [];
    if (!Array.isArray(i)) return { error: 'init did not return an array' };
    const d = dump([s, ...i]);
    return { ok: { service: d.ids[0], init: d.ids.slice(1), nodes: d.nodes, trace } };
  } catch (e) { return { error: 'eval: ' + e.name + ': ' + e.message }; }
}
const out = fs.createWriteStream(process.argv[3]);
const rl = readline.createInterface({ input: fs.createReadStream(process.argv[2]), crlfDelay: Infinity });
for await (const line of rl) {
  if (!line.trim()) continue;
  const r = JSON.parse(line);
  if (typeof r.js === 'string') { r.out = evaluate(r.js); delete r.js_keep; }
  out.write(JSON.stringify(r) + '\n');
}
out.end();
