HOOK_COMMITS = []
NOTES = "All checks share one driver (./check) and one harness; every command rebuilds the harness from /repo's working tree. known_findings.json lists recorded defects and fixed: entries."
NOT_YET = {}
chk("C09", "TLC-enumerated byte strings replayed into all LEB128 entry points + trace validation against Leb128.tla",
    "Leb128.tla is a transcription of the (S)LEB128 definition; TLC model-checks its round-trip/minimality theorems on every string of the bounded universe, emits each string, the harness runs 19 decoder entry points and 9 encoders of the real crates on them and on seeded random/boundary strings, and Trace_Leb.tla recomputes every expected value, consumed length and 128-bit range verdict. Exhaustive for short strings and the sign/padding boundary families; sampled beyond.",
    "Trusts TLC's evaluation of Leb128.tla and the harness projection of big numbers to bit lists (num-bigint to_radix_le); does not prove anything about strings outside the explored set.", "DESIGN.md §5 C09")
