"""Shared driver machinery: building the harness from /repo's working tree, running TLC as
generator (MC_*) and as referee (Trace_*), known-finding matching, evidence and replay files."""
import json, os, subprocess, sys, time, hashlib, shutil, re, signal, threading
from concurrent.futures import ThreadPoolExecutor

VERIF = os.path.dirname(os.path.dirname(os.path.abspath(__file__)))
SPEC = os.path.join(VERIF, "spec")
HARNESS = os.path.join(VERIF, "harness")
WORK = os.path.join(VERIF, "work")          # scratch (git-ignored), recreated per run
EVID = os.path.join(VERIF, "evidence")
REPLAY = os.path.join(VERIF, "replay")
# Development aid (never set by a registered command): VERIF_REPO=<scratch worktree of /repo> runs a check against that tree
# instead of /repo, with its own copy of the harness, scratch, evidence and replay directories under work/alt_<hash>/, so a
# seeded change can be tried without touching /repo and several trees can be checked at the same time.
REPO = "/repo"
_alt = os.environ.get("VERIF_REPO")
if _alt and os.path.realpath(_alt) != "/repo":
    REPO = os.path.realpath(_alt)
    WORK = os.path.join(VERIF, "work", "alt_" + hashlib.sha1(REPO.encode()).hexdigest()[:8])
    EVID = os.path.join(WORK, "evidence")
    REPLAY = os.path.join(WORK, "replay")
    _src = HARNESS
    HARNESS = os.path.join(WORK, "harness")


def _prepare_alt_harness():
    os.makedirs(os.path.join(HARNESS, ".cargo"), exist_ok=True)
    subprocess.run(["rsync", "-a", "--delete", os.path.join(_src, "src") + "/", os.path.join(HARNESS, "src") + "/"], check=True)
    for f in ("Cargo.lock", ".cargo/config.toml"):
        shutil.copy(os.path.join(_src, f), os.path.join(HARNESS, f))
    t = open(os.path.join(_src, "Cargo.toml")).read().replace('"/repo/', '"%s/' % REPO)
    # seed the scratch target directory with hard links to the main one: third-party crates are then already built
    if not os.path.exists(os.path.join(HARNESS, "target")) and os.path.isdir(os.path.join(_src, "target")):
        subprocess.run(["cp", "-al", os.path.join(_src, "target"), os.path.join(HARNESS, "target")])
    cur = os.path.join(HARNESS, "Cargo.toml")
    if not os.path.exists(cur) or open(cur).read() != t:
        open(cur, "w").write(t)


JAR = "/opt/veriftools/tla/tla2tools.jar:/opt/veriftools/tla/CommunityModules-deps.jar"
TOOLCHAIN = "stable-x86_64-unknown-linux-gnu"
NCPU = os.cpu_count() or 4


class ToolError(Exception):
    pass


def log(*a):
    print(*a, file=sys.stderr, flush=True)


def cargo_env():
    e = dict(os.environ)
    e["RUSTUP_TOOLCHAIN"] = TOOLCHAIN
    e["CARGO_NET_OFFLINE"] = "true"
    e.pop("RUSTFLAGS", None)
    return e


_built = {}


def build_harness(profile="debug"):
    """(Re)build the harness against /repo's *current working tree* (path dependencies, so cargo
    notices every edited source file).  Returns the path of the binary."""
    if profile in _built:
        return _built[profile]
    t0 = time.time()
    if REPO != "/repo":
        _prepare_alt_harness()
    cmd = ["cargo", "build", "--offline", "-q", "--bin", "cv"]
    if profile == "release":
        cmd.append("--release")
    r = subprocess.run(cmd, cwd=HARNESS, env=cargo_env(), stdout=subprocess.PIPE, stderr=subprocess.STDOUT, text=True)
    if r.returncode != 0:
        log(r.stdout[-6000:])
        raise ToolError("harness build failed (%s)" % profile)
    path = os.path.join(HARNESS, "target", profile, "cv")
    _built[profile] = path
    log("[build] harness %s %.1fs" % (profile, time.time() - t0))
    return path


def workdir(name):
    d = os.path.join(WORK, name)
    shutil.rmtree(d, ignore_errors=True)
    os.makedirs(d)
    return d


# ----------------------------------------------------------------------------- harness runs
def run_harness(args, profile="debug", stdin_path=None, stdout_path=None, timeout=3600, env=None):
    """Run `cv <args>`; returns (returncode, stderr_tail).  A negative return code is the signal
    that killed the worker (stack overflow / abort in the code under test is *data*)."""
    exe = build_harness(profile)
    e = cargo_env()
    if env:
        e.update(env)
    fin = open(stdin_path, "rb") if stdin_path else subprocess.DEVNULL
    fout = open(stdout_path, "ab") if stdout_path else subprocess.PIPE
    os.makedirs(WORK, exist_ok=True)
    errp = os.path.join(WORK, "stderr.%d.%d" % (os.getpid(), threading.get_ident()))
    ferr = open(errp, "wb")

    def tail():
        try:
            with open(errp, "rb") as f:
                f.seek(0, 2)
                n = f.tell()
                f.seek(max(0, n - 4000))
                return f.read().decode("utf8", "replace")
        except OSError:
            return ""
    try:
        p = subprocess.run([exe] + [str(a) for a in args], stdin=fin, stdout=fout, stderr=ferr, timeout=timeout, env=e)
        ferr.close()
        return p.returncode, tail(), (p.stdout if not stdout_path else None)
    except subprocess.TimeoutExpired:
        ferr.close()
        return "timeout", tail(), None
    finally:
        if stdin_path:
            fin.close()
        if stdout_path:
            fout.close()
        try:
            os.remove(errp)
        except OSError:
            pass


def count_lines(path):
    n = 0
    with open(path, "rb") as f:
        for _ in f:
            n += 1
    return n


def run_harness_supervised(args, out_path, profile="debug", timeout=1800, env=None, max_restarts=40):
    """Worker protocol: the harness processes cases 0,1,2,... and writes exactly one line per case
    (flushed).  If the worker dies (signal) or hangs, the driver records an `abort` line for the case
    it died on and restarts it after that case (`--start k`).  Returns list of abort records."""
    open(out_path, "wb").close()
    aborts = []
    start = 0
    for _ in range(max_restarts):
        rc, err, _o = run_harness(list(args) + ["--start", start], profile=profile, stdout_path=out_path, timeout=timeout, env=env)
        if rc == 0:
            return aborts
        if rc == 2 and "usage" in err.lower():
            raise ToolError("harness usage error: " + err)
        # make sure the file ends with a newline, then count completed cases
        with open(out_path, "rb+") as f:
            data = f.read()
            if data and not data.endswith(b"\n"):
                cut = data.rfind(b"\n") + 1
                f.seek(cut)
                f.truncate()
        done = count_lines(out_path)
        rec = {"abort": True, "idx": done, "rc": str(rc), "stderr": err[-600:]}
        with open(out_path, "ab") as f:
            f.write((json.dumps({"idx": done, "abort": {"rc": str(rc), "msg": err[-300:]}}) + "\n").encode())
        aborts.append(rec)
        start = done + 1
        if rc not in ("timeout",) and not (isinstance(rc, int) and rc < 0) and rc != 134 and rc != 101:
            raise ToolError("harness failed rc=%s: %s" % (rc, err))
    # a tree on which the worker keeps dying is reported with the deaths seen so far (each is a violation of its own);
    # the remaining cases of this worker are not run
    log("[cv] worker died %d times; remaining cases of this worker skipped" % len(aborts))
    return aborts


def run_harness_parallel(mode, cases, seed, nrand, trace, wd, profile="debug", extra=(), k=8, timeout=1800, env=None):
    """Split the TLC cases round-robin over k supervised workers (each also produces nrand/k seeded cases of
    its own, seed = seed*1000+i), concatenate their outputs.  Returns the list of abort records."""
    n = count_lines(cases) if cases else 0
    k = max(1, min(k, (n + nrand) // 50 + 1))
    parts = []
    if cases:
        fs = [open(os.path.join(wd, "hc.%d.ndjson" % i), "w") for i in range(k)]
        with open(cases) as f:
            for j, line in enumerate(f):
                fs[j % k].write(line)
        for f in fs:
            f.close()
    build_harness(profile)

    def one(i):
        out = os.path.join(wd, "ht.%d.ndjson" % i)
        a = [mode, "--seed", int(seed) * 1000 + i, "--n", nrand // k + (1 if i < nrand % k else 0)] + list(extra)
        if cases:
            a += ["--cases", os.path.join(wd, "hc.%d.ndjson" % i)]
        ab = run_harness_supervised(a, out, profile=profile, timeout=timeout, env=env)
        return out, ab
    aborts = []
    with ThreadPoolExecutor(max_workers=k) as ex:
        rs = list(ex.map(one, range(k)))
    with open(trace, "w") as t:
        for out, ab in rs:
            aborts += ab
            with open(out) as f:
                shutil.copyfileobj(f, t)
            os.remove(out)
    for i in range(k):
        try:
            os.remove(os.path.join(wd, "hc.%d.ndjson" % i))
        except OSError:
            pass
    return aborts


# ----------------------------------------------------------------------------- TLC
STAT_RE = re.compile(r"(\d+) states generated, (\d+) distinct states found")


def _tlc_cmd(module, cfg, workers, metadir, extra, xss="1g", xmx="6g", deque=False):
    if workers == 1:
        jopts = ["-XX:+UseSerialGC", "-XX:ActiveProcessorCount=2", "-XX:TieredStopAtLevel=1", "-Xss" + xss, "-Xmx" + xmx]
    else:
        jopts = ["-XX:+UseParallelGC", "-XX:ParallelGCThreads=8", "-Xss" + xss, "-Xmx" + xmx]
    if deque:
        jopts.append("-Dtlc2.tool.queue.IStateQueue=StateDeque")
    return ["java"] + jopts + ["-cp", JAR, "tlc2.TLC", "-workers", str(workers), "-metadir", metadir, "-cleanup",
                               "-noGenerateSpecTE", "-nowarning", "-config", cfg] + extra + [module]


def write_cfg(path, spec="Spec", invariants=(), constants=None, post=None, constraint=None, init=None, next_=None, view=None, properties=()):
    lines = []
    if init:
        lines += ["INIT " + init, "NEXT " + next_]
    else:
        lines.append("SPECIFICATION " + spec)
    for k, v in (constants or {}).items():
        lines.append("CONSTANT %s = %s" % (k, v))
    for i in invariants:
        lines.append("INVARIANT " + i)
    for i in properties:
        lines.append("PROPERTY " + i)
    if constraint:
        lines.append("CONSTRAINT " + constraint)
    if view:
        lines.append("VIEW " + view)
    if post:
        lines.append("POSTCONDITION " + post)
    lines.append("CHECK_DEADLOCK FALSE")
    with open(path, "w") as f:
        f.write("\n".join(lines) + "\n")


def tlc_generate(module, cfg_path, out_path, wd, workers=8, simulate=None, env=None, timeout=1800, tag="CASE", coverage=False, extra_tags=()):
    """Run an MC_* model: TLC explores the bounded state space, checks the model's invariants and
    prints one `<<"CASE", json>>` line per emitted case; cases are streamed into out_path.
    Returns dict(states, distinct, cases, violated(list of invariant names), other(tag->lines))."""
    extra = []
    if simulate:
        extra += ["-simulate", simulate]
    if coverage:
        extra += ["-coverage", "1"]
    metadir = os.path.join(wd, "meta_" + os.path.basename(out_path))
    cmd = _tlc_cmd(os.path.join(SPEC, module + ".tla"), cfg_path, workers, metadir, extra)
    e = dict(os.environ)
    if env:
        e.update({k: str(v) for k, v in env.items()})
    t0 = time.time()
    prefix = '<<"%s", ' % tag
    st = {"states": 0, "distinct": 0, "cases": 0, "violated": [], "other": {t: [] for t in extra_tags}, "errors": [], "coverage": []}
    p = subprocess.Popen(cmd, cwd=SPEC, env=e, stdout=subprocess.PIPE, stderr=subprocess.STDOUT, text=True, bufsize=1 << 20)
    timer = threading.Timer(timeout, lambda: p.kill())
    timer.start()
    tail = []
    try:
        with open(out_path, "w") as out:
            pending = None
            for line in p.stdout:
                # TLC wraps a printed tuple wider than 80 columns: `<< "CASE",` newline `   "..." >>`
                if pending is not None:
                    line = pending + line.strip()
                    if line.endswith(" >>"):
                        line = line[:-3] + ">>\n"
                        pending = None
                    else:
                        pending = line + " "
                        continue
                elif line.startswith('<< "') and not line.rstrip().endswith(">>"):
                    head = line.strip()
                    pending = '<<' + head[3:] + " "
                    continue
                if line.startswith(prefix):
                    s = line.rstrip("\n")
                    s = s[len(prefix):-2]
                    try:
                        out.write(json.loads(s) + "\n")
                        st["cases"] += 1
                    except Exception:
                        st["errors"].append("unparsable case line: " + line[:200])
                    continue
                hit = False
                for t in extra_tags:
                    if line.startswith('<<"%s"' % t):
                        st["other"][t].append(line.rstrip("\n"))
                        hit = True
                if hit:
                    continue
                tail.append(line)
                if len(tail) > 400:
                    tail = tail[-200:]
                m = STAT_RE.search(line)
                if m:
                    st["states"], st["distinct"] = int(m.group(1)), int(m.group(2))
                if "Invariant " in line and " is violated" in line:
                    st["violated"].append(line.split("Invariant ")[1].split(" ")[0])
                if "Action property" in line and "violated" in line or "Temporal properties were violated" in line:
                    st["violated"].append("temporal/action property")
                if line.startswith("Error:") and "Deadlock" not in line:
                    st["errors"].append(line.strip())
                if coverage and line.startswith("<") and "module" in line and ": " in line:
                    st["coverage"].append(line.strip())
    finally:
        timer.cancel()
    rc = p.wait()
    st["rc"] = rc
    st["wall"] = time.time() - t0
    st["tail"] = "".join(tail[-60:])
    shutil.rmtree(metadir, ignore_errors=True)
    log("[tlc] %s generated %d cases, %d distinct states, %.1fs" % (module, st["cases"], st["distinct"], st["wall"]))
    if simulate:
        # simulation mode reports differently
        m = re.search(r"(\d+) states checked", st["tail"])
        if m:
            st["states"] = st["distinct"] = int(m.group(1))
    bad = [x for x in st["errors"] if "is violated" not in x and "behavior up to" not in x.lower()]
    if rc not in (0, 12) or (bad and not st["violated"]):
        if rc in (-9, 137):
            raise ToolError("TLC generate %s timed out" % module)
        if not st["violated"]:
            log(st["tail"])
            raise ToolError("TLC generate %s failed rc=%s %s" % (module, rc, bad[:3]))
    return st


MIS_RE = re.compile(r'^<<\s*"MISMATCH",\s*(\d+),\s*(.*?)\s*>>$')


def _unwrap_tuples(lines):
    """TLC's pretty printer breaks a printed tuple that is wider than its line width into one element per line
    (`<< "MISMATCH",` / `   17,` / `   "tag" >>`).  Re-join such tuples so that no printed verdict is lost."""
    buf = None
    for line in lines:
        if buf is not None:
            buf.append(line.strip())
            if line.rstrip().endswith(">>"):
                yield " ".join(buf)
                buf = None
            continue
        if line.startswith("<< ") and not line.rstrip().endswith(">>"):
            buf = [line.strip()]
            continue
        yield line
    if buf:
        yield " ".join(buf)


def tlc_validate_one(module, trace_path, wd, env=None, timeout=3600):
    """Trace validation of one NDJSON shard by Trace_* (sequential).  Returns
    dict(lines, consumed, mismatches=[(line_no(1-based), detail)], states)."""
    cfg = os.path.join(SPEC, module + ".cfg")
    metadir = os.path.join(wd, "meta_" + os.path.basename(trace_path))
    cmd = _tlc_cmd(os.path.join(SPEC, module + ".tla"), cfg, 1, metadir, [], xmx="3g", deque=True)
    e = dict(os.environ)
    e["TRACE"] = trace_path
    if env:
        e.update({k: str(v) for k, v in env.items()})
    t0 = time.time()
    try:
        p = subprocess.run(cmd, cwd=SPEC, env=e, stdout=subprocess.PIPE, stderr=subprocess.STDOUT, text=True, timeout=timeout)
    except subprocess.TimeoutExpired:
        raise ToolError("TLC validate %s timed out on %s" % (module, trace_path))
    shutil.rmtree(metadir, ignore_errors=True)
    res = {"mismatches": [], "consumed": -1, "lines": -1, "states": 0, "distinct": 0, "notes": [], "wall": time.time() - t0}
    for line in _unwrap_tuples(p.stdout.splitlines()):
        m = MIS_RE.match(line)
        if m:
            res["mismatches"].append((int(m.group(1)), m.group(2)))
            continue
        if line.startswith('<<"CONSUMED", '):
            parts = line[2:-2].split(", ")
            res["consumed"], res["lines"] = int(parts[1]), int(parts[2])
        elif line.startswith('<<"NOTE"'):
            res["notes"].append(line)
        m = STAT_RE.search(line)
        if m:
            res["states"], res["distinct"] = int(m.group(1)), int(m.group(2))
    if res["consumed"] < 0 or res["consumed"] != res["lines"]:
        log(p.stdout[-5000:])
        raise ToolError("trace spec %s did not consume the whole trace %s (%s of %s)" % (module, trace_path, res["consumed"], res["lines"]))
    return res


def shard_file(path, k, wd, name):
    """Split an NDJSON file into k shards (round robin keeps shard run times balanced); returns
    [(shard_path, [global line numbers (0-based)])]."""
    outs = [open(os.path.join(wd, "%s.%02d.ndjson" % (name, i)), "w") for i in range(k)]
    idx = [[] for _ in range(k)]
    with open(path) as f:
        for n, line in enumerate(f):
            if not line.strip():
                continue
            outs[n % k].write(line)
            idx[n % k].append(n)
    for o in outs:
        o.close()
    return [(o.name, idx[i]) for i, o in enumerate(outs) if idx[i]]


def tlc_validate(module, trace_path, wd, shards=None, env=None, timeout=3600):
    """Validate a whole trace file with `shards` parallel TLC processes.  Returns aggregate dict
    with mismatches = [(global_line_no(0-based), detail)]."""
    n = count_lines(trace_path)
    if n == 0:
        raise ToolError("empty trace " + trace_path)
    k = shards or min(8, n // 1500 + 1)
    parts = shard_file(trace_path, k, wd, os.path.basename(trace_path))
    agg = {"lines": 0, "mismatches": [], "states": 0, "distinct": 0, "notes": [], "wall": 0.0}
    t0 = time.time()
    with ThreadPoolExecutor(max_workers=min(k, NCPU)) as ex:
        futs = [(ex.submit(tlc_validate_one, module, p, wd, env, timeout), ix) for p, ix in parts]
        for fut, ix in futs:
            r = fut.result()
            agg["lines"] += r["lines"]
            agg["states"] += r["states"]
            agg["distinct"] += r["distinct"]
            agg["notes"] += r["notes"]
            for (ln, det) in r["mismatches"]:
                agg["mismatches"].append((ix[ln - 1], det))
    agg["wall"] = time.time() - t0
    log("[tlc] %s validated %d lines in %d shards, %.1fs, %d mismatches" % (module, agg["lines"], len(parts), agg["wall"], len(agg["mismatches"])))
    for p, _ in parts:
        try:
            os.remove(p)
        except OSError:
            pass
    return agg


def read_line(path, n):
    with open(path) as f:
        for i, line in enumerate(f):
            if i == n:
                return json.loads(line)
    return None


def read_lines(path, wanted):
    wanted = set(wanted)
    out = {}
    with open(path) as f:
        for i, line in enumerate(f):
            if i in wanted:
                out[i] = json.loads(line)
    return out


# ----------------------------------------------------------------------------- findings
def load_known():
    with open(os.path.join(VERIF, "known_findings.json")) as f:
        return [k for k in json.load(f) if k.get("status") == "finding"]


def _get(rec, dotted):
    cur = rec
    for part in dotted.split("."):
        if isinstance(cur, dict) and part in cur:
            cur = cur[part]
        else:
            return None
    return cur


def match_known(prop, viol, known):
    """viol: dict with at least 'tag' (what differs) and 'site' fields produced by the property
    driver from the failing case (never from the property id alone).  A finding matches when every
    key of its `match` object equals (or, for *_re keys, regex-matches / for *_in keys, contains)
    the violation's field of that name."""
    for k in known:
        if prop not in k["property"]:
            continue
        ok = True
        for key, want in k["match"].items():
            if key.endswith("_re"):
                got = _get(viol, key[:-3])
                if got is None or not re.search(want, got if isinstance(got, str) else json.dumps(got)):
                    ok = False
            elif key.endswith("_in"):
                got = _get(viol, key[:-3])
                if got not in want:
                    ok = False
            else:
                if _get(viol, key) != want:
                    ok = False
            if not ok:
                break
        if ok:
            return k
    return None


class Result:
    """Collects violations for one property run and produces the interface output."""

    def __init__(self, prop, tier, seed, level="model_checking"):
        self.prop, self.tier, self.seed, self.level = prop, tier, seed, level
        self.t0 = time.time()
        self.viol = []          # dicts: tag, site, case(record), detail
        self.cov = {"evaluations": 0, "distinct_nontrivial": 0, "states": 0, "transitions": 0,
                    "traces_validated_against_impl": 0, "samples": [], "drift": 0, "parts": {}}
        self.assumptions = []
        self.rule = ""
        self._distinct = set()

    def add_states(self, st):
        self.cov["states"] += int(st.get("distinct", 0))
        self.cov["transitions"] += int(st.get("states", 0))

    def count_case(self, key, nontrivial=True):
        self.cov["evaluations"] += 1
        if nontrivial:
            h = hashlib.blake2b(key.encode() if isinstance(key, str) else key, digest_size=8).digest()
            self._distinct.add(h)

    def sample(self, rec, limit=4):
        if len(self.cov["samples"]) < limit:
            s = json.dumps(rec)
            if len(s) > 3000:
                rec = {"truncated": s[:3000]}
            self.cov["samples"].append(rec)

    def violation(self, tag, site, case, detail=""):
        self.viol.append({"tag": tag, "site": site, "case": case, "detail": detail})

    def finish(self):
        known = load_known()
        os.makedirs(REPLAY, exist_ok=True)
        os.makedirs(EVID, exist_ok=True)
        kf = {}
        fresh = []
        for v in self.viol:
            k = match_known(self.prop, v, known)
            if k:
                kf.setdefault(k["id"], [k, 0])[1] += 1
            else:
                fresh.append(v)
        for kid, (k, n) in sorted(kf.items()):
            print("KNOWN-FINDING: property=%s %s [%s; %d case(s) this run]" % (self.prop, k["what"], kid, n))
        # group fresh violations by (tag, site) so the output stays readable
        groups = {}
        for v in fresh:
            groups.setdefault((v["tag"], v["site"]), []).append(v)
        nrep = 0
        for (tag, site), vs in sorted(groups.items(), key=lambda x: str(x[0])):
            nrep += 1
            path = os.path.join(REPLAY, "%s-%s-%d.json" % (self.prop, re.sub(r"[^A-Za-z0-9_]+", "_", tag)[:40], nrep))
            with open(path, "w") as f:
                json.dump({"property": self.prop, "tag": tag, "site": site, "seed": self.seed, "tier": self.tier,
                           "count": len(vs), "cases": [{"case": v["case"], "detail": v["detail"]} for v in vs[:5]]}, f, indent=1)
            print("VIOLATION property=%s replay=%s  (%s at %s; %d case(s))" % (self.prop, path, tag, site, len(vs)))
        self.cov["distinct_nontrivial"] = len(self._distinct)
        self.cov["rule"] = self.rule
        self.cov["known_findings_hit"] = {k: v[1] for k, v in kf.items()}
        if not self.cov["samples"]:
            self.cov["samples"] = [{"note": "no sample recorded"}]
        ev = {"property_id": self.prop, "tier": self.tier, "seed": self.seed, "level": self.level,
              "coverage": self.cov, "assumptions": self.assumptions, "wall_s": round(time.time() - self.t0, 2),
              "violations": len(fresh)}
        with open(os.path.join(EVID, self.prop + ".json"), "w") as f:
            json.dump(ev, f, indent=1)
        log("[%s] %s: evaluations=%d distinct_nontrivial=%d states=%d violations=%d known=%d wall=%.1fs" % (
            self.prop, self.tier, self.cov["evaluations"], self.cov["distinct_nontrivial"], self.cov["states"], len(fresh), sum(v[1] for v in kf.values()), time.time() - self.t0))
        return 1 if fresh else 0


def standard_flow(res, wd, gens, mode, trace_module, nrand, seed, profile="debug", extra_cases=(), harness_extra=(), shards=None, gen_workers=None, hshards=8, post=None):
    """gens: list of dicts(module, constants, invariants, [simulate]).  TLC generates the cases and checks
    the model invariants; the harness runs the real code on them (+ nrand of its own seeded cases);
    the Trace_* spec referees.  Returns (trace_path, {line_no: [mismatch tags]})."""
    cases = os.path.join(wd, "cases.ndjson")
    open(cases, "w").close()
    tot = 0
    for i, g in enumerate(gens):
        cfg = os.path.join(wd, "%s_%d.cfg" % (g["module"], i))
        write_cfg(cfg, constants=g.get("constants"), invariants=g.get("invariants", []) , constraint=g.get("constraint"), properties=g.get("properties", ()))
        part = os.path.join(wd, "cases_%d.ndjson" % i)
        st = tlc_generate(g["module"], cfg, part, wd, workers=g.get("workers", gen_workers or NCPU), simulate=g.get("simulate"), timeout=g.get("timeout", 1800))
        if st["violated"]:
            raise ToolError("specification invariant violated in %s: %s\n%s" % (g["module"], st["violated"], st["tail"][-1500:]))
        res.add_states(st)
        tot += st["cases"]
        res.cov["parts"]["tlc_cases_%s_%d" % (g["module"], i)] = st["cases"]
        with open(cases, "a") as out, open(part) as f:
            for line in f:
                out.write(line)
        os.remove(part)
    with open(cases, "a") as out:
        for c in extra_cases:
            out.write(json.dumps(c) + "\n")
            tot += 1
    trace = os.path.join(wd, "trace.ndjson")
    t0 = time.time()
    aborts = run_harness_parallel(mode, cases, seed, nrand, trace, wd, profile=profile, extra=harness_extra, k=hshards)
    log("[cv] %s: %d lines in %.1fs, %d worker aborts" % (mode, count_lines(trace), time.time() - t0, len(aborts)))
    res.cov["parts"]["worker_aborts"] = len(aborts)
    if post:
        trace = post(trace)
    v = tlc_validate(trace_module, trace, wd, shards=shards)
    res.add_states(v)
    res.cov["traces_validated_against_impl"] += v["lines"]
    bad = {}
    for ln, det in v["mismatches"]:
        bad.setdefault(ln, []).append(det.strip('"'))
    return trace, bad
