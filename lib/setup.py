"""./check --setup : parse every specification module with SANY and build the harness (debug and
release) from /repo's current working tree, offline."""
import os, subprocess, glob
from common import *

def run():
    bad = 0
    mods = sorted(glob.glob(os.path.join(SPEC, "*.tla")))
    for m in mods:
        r = subprocess.run(["java", "-cp", JAR, "tla2sany.SANY", m], cwd=SPEC, stdout=subprocess.PIPE, stderr=subprocess.STDOUT, text=True)
        if r.returncode != 0 or "*** Errors" in r.stdout or "Fatal" in r.stdout:
            log(r.stdout[-2000:]); bad += 1
    log("[setup] %d modules parsed, %d bad" % (len(mods), bad))
    build_harness("debug")
    build_harness("release")
    return 2 if bad else 0
