#!/usr/bin/env python3
"""Regenerates MANIFEST.json from the table below (one source of truth) and validates it."""
import json, os, sys
V = os.path.dirname(os.path.dirname(os.path.abspath(__file__)))
CHECKS = {}
def chk(pid, technique, text, note, ref, category="model_checking"):
    CHECKS[pid] = dict(technique=technique, text=text, note=note, ref=ref, category=category)

exec(open(os.path.join(V, "lib", "manifest_table.py")).read())

props = [json.loads(l)["id"] for l in open(os.path.join(V, "properties.jsonl"))]
m = {
 "version": 1,
 "setup_cmd": "./check --setup",
 "hooks": {"guard": "candid_verif", "enable": "RUSTFLAGS/--cfg candid_verif via /verif/harness/.cargo/config.toml (harness builds /repo crates as path dependencies)",
           "baseline_off_cmd": "cd /repo && RUSTUP_TOOLCHAIN=stable-x86_64-unknown-linux-gnu cargo nextest run --workspace --no-fail-fast --test-threads 8 --offline",
           "source_commits": HOOK_COMMITS, "add_only": True},
 "engines": [{"name": "tlc+cv", "path": "/verif/check", "serves_properties": sorted(CHECKS), "kind_free_text": "TLA+ specification (spec/*.tla) model-checked with TLC; TLC-enumerated cases replayed into the real crates by the Rust harness (harness/, path deps on /repo); harness-recorded traces validated by Trace_*.tla with TLC"}],
 "checks": [], "not_applicable": [],
 "notes": NOTES,
}
for p in props:
    if p in CHECKS:
        c = CHECKS[p]
        m["checks"].append({"property_id": p, "quick_cmd": "./check %s quick" % p, "thorough_cmd": "./check %s thorough" % p,
            "evidence_file": "/verif/evidence/%s.json" % p, "replay_cmd_template": "./check %s --replay {path}" % p, "engine": "tlc+cv",
            "level_claimed": {"category": c["category"], "text": c["text"], "design_ref": c["ref"]}, "level_note": c["note"], "technique": c["technique"]})
    else:
        m["not_applicable"].append({"property_id": p, "reason": NOT_YET.get(p, "check not built yet in this round (DESIGN.md §10.5 build order); nothing is claimed")})
json.dump(m, open(os.path.join(V, "MANIFEST.json"), "w"), indent=1)
try:
    import jsonschema
    jsonschema.validate(m, json.load(open("/root/.vp/MANIFEST.schema.json")))
    print("MANIFEST.json valid; %d checks, %d not_applicable" % (len(m["checks"]), len(m["not_applicable"])))
except ImportError:
    print("jsonschema not available; written unvalidated")
