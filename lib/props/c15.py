"""C15 — field names and numeric ids are identified consistently by the spec's hash."""
import json, os
from common import *
PROP = "C15"
KEYWORDS = ["type", "import", "service", "func", "opt", "vec", "record", "variant", "blob", "principal", "nat", "nat8", "nat16", "nat32", "nat64",
            "int", "int8", "int16", "int32", "int64", "float32", "float64", "bool", "text", "null", "reserved", "empty", "oneway", "query", "composite_query",
            "id", "0", "42", "4294967295", "_0_", "_42_", "a" * 300, "zzzzzzzz" * 40, "éééééé"]

def run(tier, seed):
    res = Result(PROP, tier, seed)
    wd = workdir(PROP)
    build_harness()
    maxlen = 2 if tier == "quick" else 3
    extra = [{"name": list(k.encode())} for k in KEYWORDS]
    trace, bad = standard_flow(res, wd, [{"module": "MC_Hash", "constants": {"MaxLen": maxlen}, "invariants": ["Recurrence", "ValidUtf8", "Emit"]}],
                               "hash", "Trace_Hash", 2000 if tier == "quick" else 40000, seed, extra_cases=extra)
    recs = read_lines(trace, bad.keys())
    with open(trace) as f:
        for i, line in enumerate(f):
            r = json.loads(line)
            key = json.dumps(r.get("name", r.get("names", r.get("a"))))
            res.count_case(r.get("kind", "?") + key, nontrivial=r.get("kind") != "name" or len(r.get("name", [])) >= 2)
            if i in (40, 500, 820, 830):
                res.sample({k: r[k] for k in r if k != "obs"} | {"obs_keys": sorted(r.get("obs", {}))})
    for ln, tags in bad.items():
        r = recs[ln]
        for tag in tags:
            o = r.get("obs", {}).get(tag)
            sym = "panic" if isinstance(o, dict) and "panic" in o else ("err" if isinstance(o, dict) and "err" in o else "wrong")
            res.violation("%s:%s" % (tag, sym), r.get("kind", "abort"), {k: r[k] for k in r if k != "obs"} | {"obs": o}, "entry point %s disagrees with Hash.tla" % tag)
    res.rule = ("names: all strings of <=%d scalars over a 28-scalar alphabet (TLC, MC_Hash), keywords/numeric-looking/long names, seeded random Unicode names; "
                "13 entry points per name (idl_hash, Label, .did record/variant, text value, typed/untyped wire bytes, name<->id decoding, annotate), derive/macro corpus (9 types), "
                "colliding pairs through 8 rejecting entry points; non-trivial = name of >=2 bytes or derive/collision case, distinct by name" % maxlen)
    res.cov["exhaustive"] = True
    res.assumptions = ["TLC evaluates Hash.tla faithfully", "corpus field names in harness/src/hash.rs are written by hand next to the derived types"]
    return res.finish()

def replay(path):
    d = json.load(open(path))
    build_harness()
    wd = workdir(PROP + "_replay")
    cases = os.path.join(wd, "cases.ndjson")
    with open(cases, "w") as f:
        for c in d["cases"]:
            if "name" in c["case"]:
                f.write(json.dumps({"name": c["case"]["name"]}) + "\n")
    trace = os.path.join(wd, "trace.ndjson")
    run_harness_supervised(["hash", "--cases", cases, "--n", 0], trace)
    v = tlc_validate("Trace_Hash", trace, wd, shards=1)
    for ln, det in v["mismatches"]:
        print("still failing: line", ln, det)
    return 1 if v["mismatches"] else 0
