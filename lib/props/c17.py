"""C17 — the generated JavaScript binding denotes the same service interface."""
import json, os, subprocess
from common import *
PROP = "C17"

def node_eval(wd):
    def f(trace):
        out = os.path.join(wd, "trace_js.ndjson")
        r = subprocess.run(["node", os.path.join(VERIF, "jsrt", "run_js.mjs"), trace, out], stdout=subprocess.PIPE, stderr=subprocess.STDOUT, text=True, timeout=1800)
        if r.returncode != 0:
            raise ToolError("node failed: " + r.stdout[-1000:])
        return out
    return f

def run(tier, seed):
    res = Result(PROP, tier, seed)
    wd = workdir(PROP)
    build_harness()
    nrand = 5000 if tier == "quick" else 80000
    gens = [{"module": "DefOrder", "constants": {"N": 3 if tier == "quick" else 4}, "invariants": ["BoundBeforeUse", "EveryRecFilled", "RootsBound", "Closed"]},
            {"module": "MC_Prog", "constants": {"NDefs": 2, "U": '"small"' if tier == "quick" else '"medium"'}, "invariants": ["Emit"]}]
    trace, bad = standard_flow(res, wd, gens, "prog", "Trace_JS", nrand, seed, harness_extra=["js"], post=node_eval(wd))
    recs = read_lines(trace, bad.keys())
    n = 0
    with open(trace) as f:
        for i, line in enumerate(f):
            r = json.loads(line)
            if r.get("kind") != "js":
                continue
            n += 1
            res.count_case(r["src"], nontrivial=len(r["src"]) > 40)
            if n in (5, 3000):
                res.sample({"src": r["src"][:300], "js": r["js"][:400], "service_nodes": len(r["out"].get("ok", {}).get("nodes", {}))})
    res.cov["parts"]["programs_with_main_service"] = n
    for ln, tags in bad.items():
        r = recs[ln]
        for t in tags:
            err = (r.get("out") or {}).get("error", "")
            site = "javascript.rs" if not t.startswith("generator_panics") else "panic@" + t.split("@")[1]
            res.violation(t.split("@")[0] + (":" + err.split(":")[1].strip() if t == "javascript_error" and ":" in err else ""), site, {"src": r.get("src", "")[:1200], "js": r.get("js", "")[:2000], "error": err}, err)
    res.rule = ("design: DefOrder.tla (post-order chase, rec inference, factory machine) model-checked for every mention graph of N definitions; implementation: every accepted program of the MC_Prog universe that has a main "
                "service and %d random valid programs (recursive definitions reachable only from init args or function references, definitions named like JavaScript reserved words, quoted/numeric labels and method names) - "
                "the generated module is evaluated by node 20 against a recording IDL builder (jsrt/run_js.mjs: throws on undefined references, unfilled or twice-filled Rec, duplicate ids) and the resulting service and init "
                "types are compared structurally (EqQ) with the program's. non-trivial = source longer than 40 characters; distinct by source" % nrand)
    res.assumptions = ["node evaluates the generated syntax; the label hash of the mock is an independent JavaScript implementation", "IDL builder semantics are those of the mock (Rec/fill/getType, Tuple = record 0..n-1)"]
    return res.finish()

def replay(path):
    d = json.load(open(path)); print(json.dumps(d["cases"][0], indent=1)[:3000]); return 1
