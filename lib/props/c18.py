"""C18 — the generated Rust binding defines types with the same Candid meaning."""
import json, os, re, subprocess
from common import *
PROP = "C18"
HDR = "#![allow(dead_code, unused_imports, unused_variables, unused_mut, non_camel_case_types, non_snake_case, non_upper_case_globals, clippy::all)]\nuse candid::{self, CandidType, Deserialize, Principal};\n"

def rust_str(s):
    return json.dumps(s)

def module_text(k, r):
    lines = [HDR, r["type_defs"], "\npub fn export() -> serde_json::Value {", "    let env = candid::TypeEnv::new();", "    let mut fl = crate::proj::Flat::with_prefix(&env, \"r\");",
             "    let mut items = serde_json::Map::new();"]
    for it in r["items"]:
        lines.append("    items.insert(%s.to_string(), serde_json::json!(fl.ty(&<%s as CandidType>::ty())));" % (rust_str(it), it))
    lines.append("    let mut methods: Vec<serde_json::Value> = vec![];")
    for m in r["methods"]:
        args = ", ".join("fl.ty(&<%s as CandidType>::ty())" % a for a in m["args"])
        rets = ", ".join("fl.ty(&<%s as CandidType>::ty())" % a for a in m["rets"])
        lines.append("    { let args: Vec<String> = vec![%s]; let rets: Vec<String> = vec![%s]; methods.push(serde_json::json!({\"original\": %s, \"args\": args, \"rets\": rets})); }" % (args, rets, json.dumps(m["original"])))
    init = ", ".join("fl.ty(&<%s as CandidType>::ty())" % a for a in r["init"])
    lines.append("    let init: Vec<String> = vec![%s];" % init)
    lines.append("    serde_json::json!({\"k\": %d, \"items\": items, \"methods\": methods, \"init\": init, \"nodes\": fl.nodes})\n}\n" % k)
    return "\n".join(lines)

def build_and_run(recs, wd):
    """recs: {k: record}.  Returns {k: projection | {"compile_error": msg}}."""
    moddir = os.path.join(HARNESS, "genbind_mods")
    shutil.rmtree(moddir, ignore_errors=True)
    os.makedirs(moddir)
    out = {}
    alive = dict(recs)
    for k, r in alive.items():
        with open(os.path.join(moddir, "p%d.rs" % k), "w") as f:
            f.write(module_text(k, r))
    os.makedirs(os.path.join(HARNESS, "examples"), exist_ok=True)
    main = os.path.join(HARNESS, "examples", "genbind.rs")
    for attempt in range(6):
        with open(main, "w") as f:
            f.write("#![allow(dead_code, unused_imports)]\n#[path = \"../src/util.rs\"] mod util;\n#[path = \"../src/proj.rs\"] mod proj;\n")
            for k in sorted(alive):
                f.write("#[path = \"../genbind_mods/p%d.rs\"] mod p%d;\n" % (k, k))
            f.write("fn main() {\n    util::install_panic_hook();\n")
            for k in sorted(alive):
                f.write("    match util::guard(|| p%d::export()) { Ok(v) => println!(\"{}\", v), Err(s) => println!(\"{}\", serde_json::json!({\"k\": %d, \"panic\": s})) }\n" % (k, k))
            f.write("}\n")
        t0 = time.time()
        r = subprocess.run(["cargo", "build", "--offline", "--example", "genbind", "--message-format=short"], cwd=HARNESS, env=cargo_env(), stdout=subprocess.PIPE, stderr=subprocess.STDOUT, text=True)
        log("[c18] batch of %d modules built in %.1fs rc=%d" % (len(alive), time.time() - t0, r.returncode))
        if r.returncode == 0:
            break
        bad = set(int(x) for x in re.findall(r"genbind_mods/p(\d+)\.rs:\d+:\d+: error", r.stdout))
        if not bad:
            raise ToolError("genbind build failed without a culprit module:\n" + r.stdout[-3000:])
        for k in bad:
            msgs = [l for l in r.stdout.splitlines() if "genbind_mods/p%d.rs" % k in l and ": error" in l]
            out[k] = {"compile_error": " | ".join(msgs[:3])[:600]}
            alive.pop(k, None)
        if not alive:
            break
    else:
        raise ToolError("genbind build did not converge")
    if alive:
        p = subprocess.run([os.path.join(HARNESS, "target", "debug", "examples", "genbind")], stdout=subprocess.PIPE, stderr=subprocess.PIPE, text=True, timeout=600)
        for line in p.stdout.splitlines():
            v = json.loads(line)
            out[v["k"]] = v
        for k in alive:
            out.setdefault(k, {"panic": "no output (rc=%s)" % p.returncode})
    shutil.rmtree(moddir, ignore_errors=True)
    try:
        os.remove(main)
    except OSError:
        pass
    return out

def run(tier, seed):
    res = Result(PROP, tier, seed, level="translation_validation")
    wd = workdir(PROP)
    build_harness()
    nrand = 150 if tier == "quick" else 1500
    raw = os.path.join(wd, "raw.ndjson")
    cases = os.path.join(wd, "cases.ndjson")
    # a slice of the exhaustive universe (accepted programs with structure) plus random programs biased to naming hazards
    cfg = os.path.join(wd, "prog.cfg")
    write_cfg(cfg, constants={"NDefs": 1, "U": '"small"'}, invariants=["Emit"])
    st = tlc_generate("MC_Prog", cfg, cases, wd, workers=4)
    res.add_states(st)
    run_harness_parallel("prog", cases, seed, nrand, raw, wd, extra=["rs"], k=4)
    recs = {}
    with open(raw) as f:
        for i, line in enumerate(f):
            r = json.loads(line)
            if r.get("kind") == "rs":
                recs[i] = r
    todo = {k: r for k, r in recs.items() if "ok" in r["status"]}
    proj = {}
    ks = sorted(todo)
    B = 400
    for a in range(0, len(ks), B):
        proj.update(build_and_run({k: todo[k] for k in ks[a:a + B]}, wd))
    trace = os.path.join(wd, "trace.ndjson")
    order = []
    with open(trace, "w") as f:
        for k, r in sorted(recs.items()):
            r = dict(r)
            r["rs"] = proj.get(k, {"panic": "not built"}) if "ok" in r["status"] else {"none": 1}
            r.pop("type_defs_keep", None)
            f.write(json.dumps(r) + "\n")
            order.append(k)
    v = tlc_validate("Trace_RS", trace, wd, shards=8)
    res.add_states(v)
    res.cov["traces_validated_against_impl"] = v["lines"]
    res.cov["programs"] = len(recs)
    res.cov["disagreements_checked"] = len(v["mismatches"])
    bad = {}
    for ln, det in v["mismatches"]:
        bad.setdefault(ln, []).append(det.strip('"'))
    lines = read_lines(trace, bad.keys())
    for k, r in recs.items():
        res.count_case(r["src"], nontrivial=len(r["src"]) > 40)
        if len(res.cov["samples"]) < 2 and len(r["src"]) > 100 and "ok" in r["status"]:
            res.sample({"src": r["src"][:400], "type_defs": r["type_defs"][:500]})
    for ln, tags in bad.items():
        r = lines[ln]
        for t in tags:
            ce = (r.get("rs") or {}).get("compile_error") or ""
            site = "rust.rs pp_label Label::Id (numeric label, no id-preserving attribute)" if t.endswith(":numeric_label") else ("panic@" + t.split("@")[1] if "@" in t else "rust.rs")
            if t == "does_not_compile":
                m = re.search(r"`(?:p\d+::)?(Principal|String|Option|Vec|Box|Result)`", ce)
                pre = [n for n in ("Principal", "String", "Option", "Vec", "Box") if re.search(r"type %s =" % n, r.get("src", ""))]
                site = "definition named like a prelude/candid type (%s)" % (m.group(1) if m else pre[0]) if (m or pre) else "rust.rs"
                if site == "rust.rs" and "error[E0428]" in ce:
                    site = "names equal after case conversion (E0428 defined multiple times)"
                elif site == "rust.rs" and "error[E0124]" in ce:
                    site = "names equal after case conversion (E0124 field already declared)"
            res.violation(t.split("@")[0], site, {"src": r.get("src", "")[:1500], "type_defs": r.get("type_defs", "")[:2500], "compile_error": (r.get("rs") or {}).get("compile_error")}, (r.get("rs") or {}).get("compile_error") or "")
    res.rule = ("%d programs: the accepted one-definition programs of MC_Prog and random valid programs whose definition/field names are drawn from a pool of naming hazards (names equal after Pascal/snake conversion, Rust "
                "keywords in any case, std type names, non-ASCII and quoted labels, numeric labels in one third of them, recursion needing Box, nested anonymous records/variants/functions); the generator's type definitions are "
                "wrapped one module per program, compiled in batches with the derive macro, every emitted item / method argument / result / init argument type is obtained through CandidType::ty() and projected; Trace_RS.tla requires "
                "a structurally equal (EqQ) Rust item for every definition the binding must emit and equal method and init types. programs = distinct sources" % len(recs))
    res.cov["explanation"] = res.rule
    res.assumptions = ["rustc is the judge of 'compiles'; the specification judges the meaning of what the derive macro computes for the emitted items", "item-to-definition correspondence is existential (some emitted item is equal), not by name"]
    return res.finish()

def replay(path):
    d = json.load(open(path)); print(json.dumps(d["cases"][0], indent=1)[:3000]); return 1
