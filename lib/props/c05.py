"""C05 — subtype and upgrade checks decide the spec relation, independent of order and history."""
import json, os
from common import *
PROP = "C05"

def gens(tier):
    g = [{"module": "MC_Subtype", "constants": {"Universe": '"data"', "NDefs": 2},
          "invariants": ["Reflexive", "Transitive", "EqImpliesSub", "EqEquiv", "ReachAgrees", "Emit"]},
         {"module": "MC_Subtype", "constants": {"Universe": '"ref"', "NDefs": 2},
          "invariants": ["Reflexive", "Transitive", "EqImpliesSub", "EqEquiv", "ReachAgrees", "Emit"]},
         # optional-like types behind one and two names, in absent-field / trailing-argument position
         {"module": "MC_Subtype", "constants": {"Universe": '"alias"', "NDefs": 4},
          "invariants": ["Reflexive", "Transitive", "EqImpliesSub", "EqEquiv", "ReachAgrees", "Emit"]}]
    # the memo algorithm as designed after the fix (failed probes restore the memo): model-checked for soundness,
    # and every history in which a probe failed is replayed on the real shared memo
    if tier == "quick":
        g.append({"module": "SubtypeMemo", "constants": {"Retract": '"probe"', "NDefs": 4, "MaxQ": 2, "EmitAll": "FALSE"},
                  "invariants": ["VerdictOK", "MemoSound", "Emit"], "simulate": "num=1500", "workers": 8})
    else:
        g.append({"module": "SubtypeMemo", "constants": {"Retract": '"probe"', "NDefs": 3, "MaxQ": 2, "EmitAll": "FALSE"},
                  "invariants": ["VerdictOK", "MemoSound", "Emit"], "timeout": 3000})
        g.append({"module": "SubtypeMemo", "constants": {"Retract": '"probe"', "NDefs": 4, "MaxQ": 3, "EmitAll": "FALSE"},
                  "invariants": ["VerdictOK", "MemoSound", "Emit"], "simulate": "num=30000", "workers": 8})
    return g

def classify(res, trace, bad):
    recs = read_lines(trace, bad.keys())
    for ln, tags in bad.items():
        r = recs[ln]
        for t in tags:
            tag, _, qi = t.partition('", ')
            tag = tag.strip('"')
            case = {"kind": r.get("kind"), "env": r.get("env")}
            try:
                i = int(qi)
                if tag in ("hist_verdict", "fresh_verdict", "stale_memo_answer"):
                    case["hist"] = r["hist"][: i]
                else:
                    case["q"] = r["qs"][i - 1]
            except Exception:
                pass
            res.violation(tag, r.get("kind", "abort"), case, "verdict differs from the greatest fixed point of Subtype.tla")

def run(tier, seed):
    res = Result(PROP, tier, seed)
    wd = workdir(PROP)
    build_harness()
    nrand = 3000 if tier == "quick" else 60000
    trace, bad = standard_flow(res, wd, gens(tier), "sub", "Trace_Sub", nrand, seed)
    nq = 0
    with open(trace) as f:
        for i, line in enumerate(f):
            r = json.loads(line)
            for q in r.get("qs", []):
                nq += 1
                key = json.dumps([r["env"], q["a"], q["b"]], sort_keys=True)
                o = q["o"]
                res.count_case(key, nontrivial=(q["a"] != q["b"] and not (q["a"].startswith("p_") and q["b"].startswith("p_"))))
            if "hist" in r:
                res.count_case(json.dumps([r["env"], [(h["a"], h["b"]) for h in r["hist"]]], sort_keys=True), nontrivial=len(r["hist"]) >= 2)
            if i in (10, 40000, 48000, 49000):
                s = {"kind": r["kind"], "env": r["env"]}
                if "qs" in r: s["qs"] = r["qs"][:3]
                if "hist" in r: s["hist"] = r["hist"][:2]
                res.sample(s)
    res.cov["parts"]["verdict_queries"] = nq
    classify(res, trace, bad)
    res.rule = ("TLC: every environment of 2 definitions over {opt,vec,record,variant over ids 0/1} x 6 primitives (31 684) and over {opt,record,func,service} x 4 primitives, "
                "each with all ordered pairs of references as queries in 3 renderings (named, via reversed .did text with renamed definitions, inlined) through subtype, equal, "
                "subtype_check_all, service_compatible/_report/_equal; SubtypeMemo histories in which a probe failed replayed on one shared memo with every memo entry re-queried; "
                "harness: %d random environments of 1-6 definitions with related query pairs and memo-stress templates. non-trivial = query between different references not both primitive, "
                "or a history of >=2 queries; distinct by (environment, query/history)" % nrand)
    res.cov["exhaustive"] = True
    res.assumptions = ["TLC evaluates Subtype.tla (greatest fixed point by downward iteration) faithfully",
                       "function/service universes are bounded to arity <=1 and two method names in the exhaustive part"]
    return res.finish()

def replay(path):
    d = json.load(open(path))
    print(json.dumps(d["cases"][0], indent=1)[:3000])
    print("re-run: ./check C05 %s with VERIF_SEED=%s reproduces this case" % (d["tier"], d["seed"]))
    return 1
