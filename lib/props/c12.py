"""C12 — printing an interface as .did text and re-checking it yields an equal interface."""
import json, os
from common import *
PROP = "C12"

def run(tier, seed):
    res = Result(PROP, tier, seed)
    wd = workdir(PROP)
    build_harness()
    nrand = 5000 if tier == "quick" else 80000
    gens = [{"module": "MC_Prog", "constants": {"NDefs": 2, "U": '"small"' if tier == "quick" else '"medium"'}, "invariants": ["OrderFree", "Emit"]}]
    trace, bad = standard_flow(res, wd, gens, "prog", "Trace_Prog", nrand, seed, harness_extra=["pp"])
    # environments exported from Rust types
    t2 = os.path.join(wd, "export.ndjson")
    run_harness_parallel("native", None, seed, 600 if tier == "quick" else 6000, t2, wd, extra=["export"])
    v = tlc_validate("Trace_Prog", t2, wd)
    res.add_states(v)
    res.cov["traces_validated_against_impl"] += v["lines"]
    bad2 = {}
    for ln, det in v["mismatches"]:
        bad2.setdefault(ln, []).append(det.strip('"'))
    for tr, bd in ((trace, bad), (t2, bad2)):
        recs = read_lines(tr, bd.keys())
        with open(tr) as f:
            for i, line in enumerate(f):
                r = json.loads(line)
                if r.get("kind") != "pp":
                    continue
                res.count_case(r["src"], nontrivial=len(r["src"]) > 30)
                if len(res.cov["samples"]) < 3 and len(r["src"]) > 80:
                    res.sample({"src": r["src"][:300], "printed": r["prints"][0]["text"][:300]})
        for ln, tags in bd.items():
            r = recs[ln]
            for t in tags:
                which = t.split(":")[0]
                p = [x for x in r.get("prints", []) if x["which"] == which]
                res.violation(t, which + " printer", {"src": r.get("src", "")[:1200], "printed": p[0]["text"][:1200] if p else None, "re": (p[0]["re"] if p and "ok" not in p[0]["re"] else None)}, "")
    res.rule = ("every accepted program of the MC_Prog universe and %d random valid programs (recursive definitions, service constructors, function/service references, numeric/named/quoted labels, keywords and control "
                "characters in names) printed by candid::pretty::candid::compile and candid_parser::syntax::pretty_print (twice each), re-parsed and re-checked; type environments exported from corpus Rust types; "
                "Trace_Prog.tla requires every definition, the service and the init arguments to be structurally equal (EqQ) to the source graph. non-trivial = source longer than 30 characters; distinct by source" % nrand)
    res.assumptions = ["layout of the printed text is not compared, only what it denotes", "doc comments are not part of the compared interface"]
    return res.finish()

def replay(path):
    d = json.load(open(path)); print(json.dumps(d["cases"][0], indent=1)[:3000]); return 1
