"""C01 — native encode/decode round-trip is the identity, whatever ran before."""
import json, os
from common import *
PROP = "C01"

def run(tier, seed):
    res = Result(PROP, tier, seed)
    wd = workdir(PROP)
    build_harness()
    # history dimension: TLC enumerates every call history over the memo machine
    maxlen = 2 if tier == "quick" else 3
    cfg = os.path.join(wd, "memo.cfg")
    write_cfg(cfg, constants={"MaxLen": maxlen}, invariants=["Closed", "Emit"])
    cases = os.path.join(wd, "hist_cases.ndjson")
    st = tlc_generate("TypeMemo", cfg, cases, wd, workers=4)
    if st["violated"]:
        raise ToolError("TypeMemo invariant violated: %s" % st["violated"])
    res.add_states(st)
    # longer histories by simulation
    cfg2 = os.path.join(wd, "memo_sim.cfg")
    write_cfg(cfg2, constants={"MaxLen": 7}, invariants=["Closed", "Emit"])
    sim = os.path.join(wd, "hist_sim.ndjson")
    st2 = tlc_generate("TypeMemo", cfg2, sim, wd, workers=2, simulate="num=%d" % (300 if tier == "quick" else 4000))
    with open(cases, "a") as out, open(sim) as f:
        out.write(f.read())
    res.cov["parts"]["tlc_histories"] = st["cases"] + st2["cases"]
    t1 = os.path.join(wd, "hist.ndjson")
    run_harness_parallel("native", cases, seed, 0, t1, wd, extra=["hist"])
    # value dimension: the whole corpus x boundary-biased values
    t2 = os.path.join(wd, "rt.ndjson")
    nrand = 12000 if tier == "quick" else 250000
    run_harness_parallel("native", None, seed, nrand, t2, wd, extra=["rt"])
    trace = os.path.join(wd, "trace.ndjson")
    with open(trace, "w") as out:
        for t in (t1, t2):
            with open(t) as f:
                shutil.copyfileobj(f, out)
    v = tlc_validate("Trace_Native", trace, wd)
    res.add_states(v)
    res.cov["traces_validated_against_impl"] = v["lines"]
    bad = {}
    for ln, det in v["mismatches"]:
        bad.setdefault(ln, []).append(det.strip('"'))
    recs = read_lines(trace, bad.keys())
    types = set()
    with open(trace) as f:
        for i, line in enumerate(f):
            r = json.loads(line)
            if r.get("kind") == "rt":
                types.add(r["rust"])
                res.count_case(json.dumps([r["rust"], r["rt"].get("v")]), nontrivial=len(r["rt"].get("blob", [])) > 8)
                if len(res.cov["samples"]) < 3 and len(r["rt"].get("blob", [])) > 20:
                    res.sample({"rust": r["rust"], "v": r["rt"].get("v"), "blob_hex": bytes(r["rt"]["blob"]).hex(), "res": r["rt"]["res"]})
            elif r.get("kind") == "hist":
                res.count_case(json.dumps(r["hist"]), nontrivial=len(r["hist"]) >= 2)
                if i == 5:
                    res.sample({"hist": r["hist"], "probe_results": {k: v["rt"] for k, v in r["r"]["steps"][-1]["probes"].items()}})
    res.cov["parts"]["rust_types_round_tripped"] = len(types)
    for ln, tags in bad.items():
        r = recs[ln]
        for t in tags:
            if r.get("kind") == "hist":
                res.violation(t, "history", {"hist": r["hist"]}, "")
            else:
                res.violation(t, r.get("family", "?"), {"rust": r.get("rust"), "v": r["rt"].get("v"), "blob_hex": bytes(r["rt"].get("blob", [])).hex(), "res": r["rt"].get("res")}, (r["rt"].get("res") or {}).get("msg", ""))
    res.rule = ("value dimension: %d seeded (Rust type, boundary-biased value) pairs over a 559-type corpus (9 key x 17 value types under BTreeMap/HashMap, 23 element types under 15 container shapes, sets, derived/recursive/generic "
                "structs and enums, references), each encoded with Encode!, decoded with IDLDeserialize::get_value + done, compared structurally (floats bitwise), and the bytes re-read by Wire.Parse against the declared type and value; "
                "history dimension: every history of <=%d memo operations (ty/round-trip of 8 recursive and generic types, IDLBuilder::new, env_clear) from TypeMemo.tla plus simulated histories of length 7, replayed in a fresh thread with "
                "all 8 types probed (round trip, T::ty() bisimilar to the declared type) after every step. non-trivial = message longer than 8 bytes / history of >=2 operations; distinct by (type, value) / history" % (nrand, maxlen))
    res.assumptions = ["corpus declarations (harness/src/corpus.rs) are hand-written", "HashMap/HashSet iteration order is compared as a set"]
    return res.finish()

def replay(path):
    d = json.load(open(path)); print(json.dumps(d["cases"][0], indent=1)[:3000]); return 1
