"""C08 — native decoding agrees with untyped decoding at the same Candid type."""
import json, os, re
from common import *
PROP = "C08"

def site_of(r, tag):
    msg = ((r.get("native") or {}).get("msg") or "")
    fam = r.get("family") or "%s -> %s" % (r.get("from_family"), r.get("to_family"))
    if "vec nat8" in msg and "ByteBuf" in (r.get("rust") or r.get("to") or ""):
        return "de.rs deserialize_byte_buf: vec nat8"
    if "expect a key-value pair" in msg:
        return "de.rs deserialize_map: expect a key-value pair"
    if "is not a tuple type" in msg or "Trailing value after finishing deserialization" in msg:
        return "de.rs tuple: surplus field"
    if isinstance(r.get("native"), dict) and "panic" in r["native"]:
        return "panic@" + r["native"]["panic"]
    if tag.startswith("native:wrong_value"):
        return r.get("rust") or fam
    return fam

def run(tier, seed):
    res = Result(PROP, tier, seed)
    wd = workdir(PROP)
    build_harness()
    nrand = 30000 if tier == "quick" else 500000
    trace = os.path.join(wd, "trace.ndjson")
    run_harness_parallel("native", None, seed, nrand, trace, wd, extra=["dec"])
    v = tlc_validate("Trace_Native", trace, wd)
    res.add_states(v)
    res.cov["traces_validated_against_impl"] = v["lines"]
    bad = {}
    for ln, det in v["mismatches"]:
        bad.setdefault(ln, []).append(det.strip('"'))
    recs = read_lines(trace, bad.keys())
    acc = 0
    with open(trace) as f:
        for i, line in enumerate(f):
            r = json.loads(line)
            if r.get("kind") != "dec":
                continue
            ok = isinstance(r.get("native"), dict) and "ok" in r["native"]
            acc += ok
            res.count_case(json.dumps([r["rust"], r["blob"]]), nontrivial=len(r["blob"]) > 8)
            if i in (7, 1000, 5000):
                res.sample({"rust": r["rust"], "blob_hex": bytes(r["blob"]).hex(), "native": r["native"], "untyped": r["untyped"]})
    res.cov["parts"]["messages_accepted_natively"] = acc
    for ln, tags in bad.items():
        r = recs[ln]
        for t in tags:
            res.violation(t, site_of(r, t), {"rust": r.get("rust"), "family": r.get("family"), "blob_hex": bytes(r.get("blob", [])).hex(), "native": r.get("native"), "untyped": r.get("untyped")}, (r.get("native") or {}).get("msg", "") if isinstance(r.get("native"), dict) else "")
    res.rule = ("%d seeded (Rust type of the 564-type corpus, message) pairs: the type's own encodings, values of related wire types (sub/supertypes by upgrade and breaking steps of the *declared* type), layout twins "
                "(text/blob/principal, nat/nat8, int/nat vectors, float/int), unrelated types, and byte mutants; each decoded natively (Decode!), untyped at the declared type and untyped at T::ty(); the referee computes "
                "Decode = Parse + Coerce at the declared type and the BoundedVec limits. non-trivial = message longer than 8 bytes; distinct by (type, bytes)" % nrand)
    res.assumptions = ["128-bit host range, fixed array length and map/set de-duplication are host limits (excused when the specification's value carries a number beyond 127 bits / the type is an array)"]
    return res.finish()

def replay(path):
    d = json.load(open(path)); print(json.dumps(d["cases"][0], indent=1)[:3000]); return 1
