"""C13 — the text parsers return a result for every input and never panic."""
import json, os
from common import *
PROP = "C13"
INV = ["WellFormedSentence", "Emit"]

def gens(tier):
    q = tier == "quick"
    g = [{"module": "MC_Gram", "constants": {"MaxLen": 6 if q else 7, "Start": '"Args"', "Mutate": "TRUE"}, "invariants": INV},
         {"module": "MC_Gram", "constants": {"MaxLen": 8, "Start": '"Args"', "Mutate": "FALSE"}, "invariants": INV},
         {"module": "MC_Gram", "constants": {"MaxLen": 7 if q else 8, "Start": '"Prog"', "Mutate": "TRUE"}, "invariants": INV},
         {"module": "MC_Gram", "constants": {"MaxLen": 9 if q else 10, "Start": '"Prog"', "Mutate": "FALSE"}, "invariants": INV},
         {"module": "MC_Gram", "constants": {"MaxLen": 7, "Start": '"Typ"', "Mutate": "TRUE"}, "invariants": INV},
         {"module": "MC_Gram", "constants": {"MaxLen": 7, "Start": '"InitArgs"', "Mutate": "TRUE"}, "invariants": INV},
         {"module": "MC_Gram", "constants": {"MaxLen": 8, "Start": '"Test"', "Mutate": "TRUE"}, "invariants": INV},
         {"module": "MC_Lex", "constants": {"MaxLen": 3 if q else 4, "Kind": '"lex"'}, "invariants": ["Emit"]},
         {"module": "MC_Lex", "constants": {"MaxLen": 5 if q else 6, "Kind": '"num"'}, "invariants": ["Emit"]}]
    return g

def run(tier, seed):
    res = Result(PROP, tier, seed, level="exploration")
    wd = workdir(PROP)
    traces = {}
    for profile in ("debug", "release"):
        build_harness(profile)
        wdp = os.path.join(wd, profile)
        os.makedirs(wdp)
        if profile == "debug":
            trace, bad = standard_flow(res, wdp, gens(tier), "parse", "Trace_Parse", 30, seed, profile=profile, hshards=8)
            cases = os.path.join(wdp, "cases.ndjson")
        else:
            shutil.copy(os.path.join(wd, "debug", "cases.ndjson"), os.path.join(wdp, "tlc.ndjson"))
            with open(os.path.join(wdp, "tlc.ndjson")) as f:
                extra = [json.loads(l) for l in f]
            trace, bad = standard_flow(res, wdp, [], "parse", "Trace_Parse", 30, seed, profile=profile, extra_cases=extra, hshards=8)
        traces[profile] = trace
        recs = read_lines(trace, bad.keys())
        for ln, tags in bad.items():
            r = recs[ln]
            if "abort" in r:
                res.violation("abort:" + profile, "worker died", {"abort": r["abort"]}, "")
                continue
            for x in r["res"]:
                for e, c in x["r"].items():
                    if c.startswith("panic"):
                        site = c.split("@", 1)[1]
                        # panic sites inside the generated grammar.rs have unstable line numbers: identified by the input text
                        res.violation("panic:%s:%s" % (e, profile), site if site != "grammar.rs" else ("grammar.rs: hex literal with 0X prefix" if "0X" in x["s"] else "grammar.rs on " + x["s"][:60]), {"input": x["s"], "entry": e, "origin": r.get("origin")}, "")
    n = 0
    with open(traces["debug"]) as fd, open(traces["release"]) as fr:
        for ld, lr in zip(fd, fr):
            a, b = json.loads(ld), json.loads(lr)
            if "abort" in a or "abort" in b:
                continue
            n += 1
            for x, y in zip(a["res"], b["res"]):
                res.count_case(x["s"], nontrivial=len(x["s"]) > 6)
                if x["r"] != y["r"]:
                    res.violation("debug_release_differ", "parser", {"input": x["s"], "debug": x["r"], "release": y["r"]}, "")
            if n in (100, 60000):
                res.sample({"origin": a["origin"], "inputs": [x["s"] for x in a["res"]][:3], "result": a["res"][0]["r"]})
    res.rule = ("TLC: every sentence of the value grammar (<=%s tokens) and of the program/type/init-args/test grammars with all single-token delete/duplicate/replace mutants (MC_Gram), every string of <=%d lexer "
                "character classes and every string of <=5 numeral characters (0 1 _ x X f + - . e) in 7 contexts (MC_Lex); each token sentence instantiated with 3 choices of terminals from boundary sets (0, 2^32-1, 2^32, 0x/0X, underscores, leading zeros, 40-digit numerals, "
                "escapes); nesting templates to depth 128; each string through parse_idl_args, parse_idl_value, IDLProg (+check_prog), IDLType, IDLTypes, IDLInitArgs, Test, in debug and release builds. "
                "non-trivial = input longer than 6 characters; distinct by input text" % ("6/8" if tier == "quick" else "7/8", 3 if tier == "quick" else 4))
    res.assumptions = ["acceptance vs. the specification's grammar is not gated (the statement asks for totality)", "TLC supplies the inputs; absence of panics is observed by running the real parsers"]
    return res.finish()

def replay(path):
    d = json.load(open(path)); print(json.dumps(d["cases"][0], indent=1)[:3000]); return 1
