"""C10 — untyped values survive annotate, encode and decode at their type."""
import json, os
from common import *
PROP = "C10"

def collect(res, trace, bad, site_of):
    recs = read_lines(trace, bad.keys())
    for ln, tags in bad.items():
        r = recs[ln]
        for t in tags:
            res.violation(t.split("@")[0], site_of(t), {k: r.get(k) for k in ("types", "ts", "vals", "v", "ann", "enc", "dec_t", "subs", "sub_direct", "direct", "steps") if k in r} |
                          {"env": {k: v for k, v in (r.get("env") or {}).items() if not k.startswith("p_")}, "blob_hex": bytes(r["blob"]).hex() if isinstance(r.get("blob"), list) else None}, "")

def site(t):
    if "@" in t: return "panic@" + t.split("@")[-1]
    if t.startswith("annotate"): return "IDLValue::annotate_type(from_parser=false)"
    if t.startswith("encode"): return "IDLArgs::to_bytes_with_types"
    return "untyped round trip"

def run(tier, seed):
    res = Result(PROP, tier, seed)
    wd = workdir(PROP)
    build_harness()
    nrand = 20000 if tier == "quick" else 300000
    gens = [{"module": "MC_Decode", "constants": {"Level": 2, "EmitKind": '"enc"'}, "invariants": ["EncDec", "Refl", "LayoutFree", "Emit"]}]
    trace, bad = standard_flow(res, wd, gens, "msg", "Trace_Val", nrand, seed, harness_extra=["val"])
    n_ill = 0
    with open(trace) as f:
        for i, line in enumerate(f):
            r = json.loads(line)
            res.count_case(json.dumps([r.get("vals"), r.get("types"), r.get("env")], sort_keys=True), nontrivial=len(json.dumps(r.get("vals"))) > 40)
            n_ill += r.get("origin") == "nearmiss"
            if i in (10, 1000, 1001):
                res.sample({k: r.get(k) for k in ("origin", "types", "vals", "ann", "enc")})
    res.cov["parts"]["near_miss_values"] = n_ill
    collect(res, trace, bad, site)
    res.rule = ("TLC: every (type tree of depth<=2, inhabitant) (MC_Decode/enc); harness: %d seeded random recursive environments with inhabitants, half of them mutated into near-miss values (wrong number width, "
                "missing/surplus field, unknown tag, text/blob confusion, extra nesting, reference kind); each through annotate_type(false), to_bytes_with_types, from_bytes_with_types and from_bytes; the referee "
                "decides typedness with Values.tla; the same lists with one value too many / too few must be answered without a panic. non-trivial = value whose projection is longer than 40 characters; distinct by (values, types, environment)" % nrand)
    res.assumptions = ["values that differ only in the Nat/Int constructor of a number are not distinguished by the abstract domain"]
    return res.finish()

def replay(path):
    d = json.load(open(path)); print(json.dumps(d["cases"][0], indent=1)[:3000]); return 1
