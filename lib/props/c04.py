"""C04 — accepted subtyping means decoding at the supertype cannot fail."""
import json, os
from common import *
import props.c10 as c10
import props.c08 as c08
PROP = "C04"

def run(tier, seed):
    res = Result(PROP, tier, seed)
    wd = workdir(PROP)
    build_harness()
    nrand = 25000 if tier == "quick" else 300000
    # the theorem itself (Sound) is model-checked on the specification over all pairs of depth-2 type trees
    gens = [{"module": "MC_Decode", "constants": {"Level": 2, "EmitKind": '"dec"'}, "invariants": ["Sound", "Refl"]}]
    trace, bad = standard_flow(res, wd, gens, "msg", "Trace_Val", nrand, seed, harness_extra=["chain"])
    acc = 0
    with open(trace) as f:
        for i, line in enumerate(f):
            r = json.loads(line)
            allsub = all(s == 1 for s in r.get("subs", [0]))
            acc += allsub
            res.count_case(json.dumps([r.get("ts"), r.get("v"), r.get("env")], sort_keys=True), nontrivial=allsub and r["ts"][0] != r["ts"][-1])
            if i in (10, 500, 2000):
                res.sample({k: r.get(k) for k in ("ts", "subs", "sub_direct", "v", "direct")} | {"env": {k: v for k, v in r["env"].items() if not k.startswith("p_")}})
    res.cov["parts"]["chains_fully_accepted_by_real_checker"] = acc
    # native leg
    t2 = os.path.join(wd, "native.ndjson")
    run_harness_parallel("native", None, seed, 3000 if tier == "quick" else 40000, t2, wd, extra=["up"])
    v = tlc_validate("Trace_Native", t2, wd)
    res.add_states(v)
    res.cov["traces_validated_against_impl"] += v["lines"]
    bad2 = {}
    for ln, det in v["mismatches"]:
        bad2.setdefault(ln, []).append(det.strip('"'))
    recs = read_lines(t2, bad2.keys())
    with open(t2) as f:
        for line in f:
            r = json.loads(line)
            res.count_case(json.dumps([r.get("from"), r.get("to"), r.get("v")]), nontrivial=True)
    for ln, tags in bad2.items():
        r = recs[ln]
        for t in tags:
            res.violation(t, c08.site_of(r, t), {k: r.get(k) for k in ("from", "to", "v", "sub", "native", "untyped", "blob_hex")}, (r.get("native") or {}).get("msg", "") if isinstance(r.get("native"), dict) else "")
    c10.collect(res, trace, bad, lambda t: "upgrade chain")
    res.rule = ("specification: Sound (t <: t' => coercion total and well-typed) model-checked over all pairs of depth-2 type trees and their inhabitants; harness: %d seeded upgrade chains t0 <: t1 <: .. (1-3 steps: "
                "widen to opt/reserved, nat->int, drop/add optional fields, add variant cases, generalise references) with an inhabitant of t0 - the real subtype verdict per step, direct decode at the last type, "
                "decode/re-encode along the chain; native pairs (T, T') of the corpus related by construction. non-trivial = chain accepted by the real checker whose end types differ; distinct by (types, value)" % nrand)
    res.assumptions = ["host-type range limits (128-bit integers, fixed arrays, duplicate map keys) are excluded in the native leg"]
    return res.finish()

def replay(path):
    d = json.load(open(path)); print(json.dumps(d["cases"][0], indent=1)[:3000]); return 1
