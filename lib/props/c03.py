"""C03 — every encoded message is well-formed per the binary format of the spec."""
import json, os
from common import *
PROP = "C03"

def run(tier, seed):
    res = Result(PROP, tier, seed)
    wd = workdir(PROP)
    build_harness()
    nrand = 8000 if tier == "quick" else 150000
    gens = [{"module": "MC_Decode", "constants": {"Level": 2, "EmitKind": '"enc"'}, "invariants": ["EncDec", "Refl", "LayoutFree", "Emit"]}]
    trace, bad = standard_flow(res, wd, gens, "msg", "Trace_Msg", nrand, seed, harness_extra=["enc"])
    # native encoders (Encode!/IDLBuilder::arg) over the Rust corpus are judged by the same referee
    t2 = os.path.join(wd, "native.ndjson")
    run_harness_parallel("native", None, seed, 4000 if tier == "quick" else 60000, t2, wd, extra=["enc"])
    v = tlc_validate("Trace_Msg", t2, wd)
    res.add_states(v)
    res.cov["traces_validated_against_impl"] += v["lines"]
    bad2 = {}
    for ln, det in v["mismatches"]:
        bad2.setdefault(ln, []).append(det.strip('"'))
    for tr, bd in ((trace, bad), (t2, bad2)):
        recs = read_lines(tr, bd.keys())
        with open(tr) as f:
            for i, line in enumerate(f):
                r = json.loads(line)
                res.count_case(json.dumps([r.get("blob"), r.get("wts")], sort_keys=True), nontrivial=isinstance(r.get("blob"), list) and len(r["blob"]) > 8)
                if i in (10, 5000):
                    res.sample({"wts": r.get("wts"), "rust": r.get("rust"), "vals": r.get("vals"), "blob_hex": bytes(r["blob"]).hex() if isinstance(r.get("blob"), list) else r.get("blob")})
        for ln, tags in bd.items():
            r = recs[ln]
            for t in tags:
                res.violation(t, r.get("rust", "untyped-encode"), {"wts": r.get("wts"), "vals": r.get("vals"), "blob": r.get("blob"), "rust": r.get("rust"),
                                                                     "env": {k: v for k, v in (r.get("env") or {}).items() if not k.startswith("p_")}}, "encoder output vs Wire.Parse")
    # the encoder as an object with a history (Builder.tla): TLC enumerates every operation sequence of MC_Builder
    # (checking on the specification that its own encoder refines `serialize`), each is replayed on a real IDLBuilder
    # and a twin, random histories over the whole native corpus are added, Trace_Builder referees
    bwd = os.path.join(wd, "builder")
    os.makedirs(bwd, exist_ok=True)
    cfg = os.path.join(bwd, "MC_Builder.cfg")
    write_cfg(cfg, constants={"MaxOps": 4 if tier == "quick" else 5}, invariants=["EncoderRefines", "Emit"], properties=["RejectKeeps"])
    bcases = os.path.join(bwd, "cases.ndjson")
    st = tlc_generate("MC_Builder", cfg, bcases, bwd, workers=NCPU, timeout=3000)
    if st["violated"]:
        raise ToolError("specification invariant violated in MC_Builder: %s\n%s" % (st["violated"], st["tail"][-1500:]))
    res.add_states(st)
    res.cov["parts"]["tlc_cases_MC_Builder"] = st["cases"]
    t3 = os.path.join(bwd, "trace.ndjson")
    run_harness_parallel("builder", bcases, seed, 3000 if tier == "quick" else 40000, t3, bwd, k=8)
    v3 = tlc_validate("Trace_Builder", t3, bwd)
    res.add_states(v3)
    res.cov["traces_validated_against_impl"] += v3["lines"]
    res.cov["parts"]["builder_histories"] = v3["lines"]
    bad3 = {}
    for ln, det in v3["mismatches"]:
        bad3.setdefault(ln, []).append(det.strip('"'))
    recs3 = read_lines(t3, bad3.keys())
    with open(t3) as f:
        for i, line in enumerate(f):
            r = json.loads(line)
            res.count_case("builder" + json.dumps([r.get("ops")], sort_keys=True), nontrivial=len(r.get("ops", [])) > 2)
    for ln, tags in bad3.items():
        r = recs3[ln]
        for t in tags:
            if t.startswith("DRIFT:"):
                res.cov["drift"] += 1
                continue
            res.violation(t, "IDLBuilder", {"ops": r.get("ops"), "outs": r.get("outs"), "env": {k: v for k, v in (r.get("env") or {}).items() if not k.startswith("p_")}}, "IDLBuilder history vs Builder.tla (Denotes)")
    res.rule = ("TLC (MC_Decode, EmitKind=enc): every (type tree, inhabitant) encoded by the *real* to_bytes_with_types; harness: %d random recursive environments x values through to_bytes_with_types / to_bytes, "
                "and the native corpus (Encode!/IDLBuilder::arg) x boundary values; each output parsed by the specification's decoder and compared with declared types (bisimulation) and abstract values; "
                "encoded twice for determinism; builder histories (MC_Builder: every sequence of typed / untyped / native / ill-typed arguments and serialize calls up to the bound, plus random histories over the native corpus) replayed on IDLBuilder and a twin, every serialize output must denote the arguments accepted so far. non-trivial = message longer than 8 bytes; distinct by (bytes, types)" % nrand)
    res.assumptions = ["Wire.Parse is the independent decoder (validated against test/*.test.did in ./check --setup and by MC_Decode.EncDec)"]
    return res.finish()

def replay(path):
    d = json.load(open(path))
    print(json.dumps(d["cases"][0], indent=1)[:3000])
    return 1
