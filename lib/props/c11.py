"""C11 — printing a value as Candid text and parsing it back returns the same value."""
import json, os
from common import *
PROP = "C11"

def run(tier, seed):
    res = Result(PROP, tier, seed)
    wd = workdir(PROP)
    build_harness()
    maxlen = 2 if tier == "quick" else 3
    nrand = 8000 if tier == "quick" else 150000
    gens = [{"module": "MC_Text", "constants": {"MaxLen": maxlen}, "invariants": ["LitRoundTrip", "Emit"]}]
    trace, bad = standard_flow(res, wd, gens, "text", "Trace_Text", nrand, seed)
    recs = read_lines(trace, bad.keys())
    with open(trace) as f:
        for i, line in enumerate(f):
            r = json.loads(line)
            res.count_case(json.dumps([r.get("vals"), r.get("types")]), nontrivial=len(r.get("disp", {}).get("ok", [])) > 12)
            if i in (30, 800, 2000):
                res.sample({"origin": r["origin"], "display": "".join(map(chr, r["disp"].get("ok", [])))[:300], "debug": "".join(map(chr, r["dbg"].get("ok", [])))[:300]})
    for ln, tags in bad.items():
        r = recs[ln]
        for t in tags:
            which = "disp" if t.startswith("display") else "dbg"
            p = r.get("p_" + which, {})
            site = "panic@" + p["panic"] if isinstance(p, dict) and "panic" in p else ("printer" if "grammar" in t or "denotes" in t else "print/parse")
            res.violation(t, site, {"vals": r.get("vals"), "types": r.get("types"), "printed": "".join(map(chr, r.get(which, {}).get("ok", [])))[:600], "reparse": p,
                                     "env": {k: v for k, v in (r.get("env") or {}).items() if not k.startswith("p_")}}, "")
    res.rule = ("TLC (MC_Text): every string of <=%d scalars over a 26-scalar alphabet (controls, quotes, backslash, escape letters, braces, DEL, non-ASCII, combining, astral) used as text, record field name, variant tag, "
                "method name, blob and under opt/vec; harness: %d seeded values - random typed compound values of recursive environments and shaped cases (digit-grouping boundaries, vectors around the abbreviation threshold, "
                "blobs of every byte class, nested options of annotated numbers, big numbers, floats). Each printed with Display and Debug (twice), parsed by parse_idl_args + annotate_types, and the printed text is read by "
                "the specification's own lexer/parser (ValueText.tla). non-trivial = printed text longer than 12 characters; distinct by (values, types)" % (maxlen, nrand))
    res.cov["exhaustive"] = True
    res.assumptions = ["floats: finite only; the specification's reader checks float literals by position and width, not by value", "IDLArgs with zero arguments (Debug prints the empty string) are not generated"]
    return res.finish()

def replay(path):
    d = json.load(open(path)); print(json.dumps(d["cases"][0], indent=1)[:3000]); return 1
