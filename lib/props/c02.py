"""C02 — decoding at an expected type is exactly the specification's coercion."""
import json, os, shutil
from common import *
PROP = "C02"
INV = ["EncDec", "Refl", "Sound", "LayoutFree", "Emit"]

def classify(res, trace, bad, prop_kind="dec"):
    recs = read_lines(trace, bad.keys())
    for ln, tags in bad.items():
        r = recs[ln]
        for t in tags:
            api = t.split(":")[0]
            o = r.get(api) if api in r else r.get("abort")
            site = "untyped-decode"
            msg = (o or {}).get("msg", "") if isinstance(o, dict) else ""
            if isinstance(o, dict) and "panic" in o:
                site = "panic@" + o["panic"]
            res.violation(t, site, {"types": r.get("types"), "blob_hex": bytes(r.get("blob", [])).hex() if isinstance(r.get("blob"), list) else r.get("blob"),
                                     "env": {k: v for k, v in (r.get("env") or {}).items() if not k.startswith("p_")}, "obs": o, "msg": msg},
                          "real decoder vs Wire.Parse + Coerce")

def session_stage(res, wd, tier, seed, prop="C02"):
    """The IDLDeserialize session as a state machine (Session.tla): TLC explores every operation sequence of
    MC_Session (checking Refines/AfterDone/Forward on the specification), every behaviour is replayed on the
    real object, random walks over random (damaged) messages are recorded, and Trace_Session referees."""
    swd = os.path.join(wd, "session")
    os.makedirs(swd, exist_ok=True)
    cases = os.path.join(swd, "cases.ndjson")
    level, maxops, nrand = (1, 3, 6000) if tier == "quick" else (2, 3, 60000)
    if prop != "C02":
        open(cases, "w").close()
    else:
        cfg = os.path.join(swd, "MC_Session.cfg")
        write_cfg(cfg, constants={"Level": level, "MaxOps": maxops}, invariants=["Refines", "AfterDone", "Emit"], properties=["Forward"])
        st = tlc_generate("MC_Session", cfg, cases, swd, workers=NCPU, timeout=3000)
        if st["violated"]:
            raise ToolError("specification invariant violated in MC_Session: %s\n%s" % (st["violated"], st["tail"][-1500:]))
        res.add_states(st)
        res.cov["parts"]["tlc_cases_MC_Session"] = st["cases"]
    trace = os.path.join(swd, "trace.ndjson")
    aborts = run_harness_parallel("session", cases, seed, nrand, trace, swd, k=8)
    res.cov["parts"]["session_worker_aborts"] = len(aborts)
    v = tlc_validate("Trace_Session", trace, swd, shards=8)
    res.add_states(v)
    res.cov["traces_validated_against_impl"] += v["lines"]
    res.cov["parts"]["sessions"] = v["lines"]
    bad = {}
    for ln, det in v["mismatches"]:
        bad.setdefault(ln, []).append(det.strip('"'))
    recs = read_lines(trace, bad.keys())
    with open(trace) as f:
        for i, line in enumerate(f):
            r = json.loads(line)
            res.count_case("session" + json.dumps([r.get("blob"), r.get("ops")], sort_keys=True), nontrivial=len(r.get("outs", [])) > 1)
            if i == 20000:
                res.sample({"session": {"blob_hex": bytes(r["blob"]).hex(), "ops": r["ops"], "outs": r["outs"]}}, limit=5)
    for ln, tags in bad.items():
        r = recs[ln]
        for t in tags:
            if t.startswith("DRIFT:"):
                res.cov["drift"] += 1
                continue
            quota = t == "quota_refunded"
            if quota != (prop == "C07"):
                continue
            panics = [o["panic"] for o in r.get("outs", []) + [r.get("new", {})] if isinstance(o, dict) and "panic" in o]
            site = ("panic@" + panics[0]) if panics else "decoding-session"
            res.violation(t, site, {"blob_hex": bytes(r.get("blob", [])).hex(), "ops": r.get("ops"), "new": r.get("new"), "outs": r.get("outs"), "dq": r.get("dq"),
                                    "env": {k: v for k, v in (r.get("env") or {}).items() if not k.startswith("p_")}},
                          "IDLDeserialize session vs Session.tla")
    return v["lines"]

def run(tier, seed):
    res = Result(PROP, tier, seed)
    wd = workdir(PROP)
    build_harness()
    level = 2
    nrand = 45000 if tier == "quick" else 400000
    trace, bad = standard_flow(res, wd, [{"module": "MC_Decode", "constants": {"Level": level, "EmitKind": "\"dec\""}, "invariants": INV}], "msg", "Trace_Msg", nrand, seed, harness_extra=["dec"])
    ok = 0
    with open(trace) as f:
        for i, line in enumerate(f):
            r = json.loads(line)
            dec_ok = isinstance(r.get("real"), dict) and "ok" in r["real"]
            ok += dec_ok
            res.count_case(json.dumps([r.get("blob"), r.get("types"), r.get("env")], sort_keys=True), nontrivial=len(r.get("blob", [])) > 8)
            if i in (100, 3000, 9000, 12000):
                res.sample({"types": r["types"], "blob_hex": bytes(r["blob"]).hex(), "real": r["real"], "env": {k: v for k, v in r["env"].items() if not k.startswith("p_")}})
    res.cov["parts"]["decoded_ok_by_impl"] = ok
    classify(res, trace, bad)
    # the language-independent conformance suite (test/*.test.did): the specification must come out as the files assert
    # (a SUITE mismatch is a specification bug = tool error), and the real decoder must agree with the specification on every blob
    st = os.path.join(wd, "suite.ndjson")
    aborts = run_harness_supervised(["suite", os.path.join(REPO, "test")], st)
    v = tlc_validate("Trace_Suite", st, wd, shards=4)
    res.add_states(v)
    res.cov["traces_validated_against_impl"] += v["lines"]
    res.cov["parts"]["conformance_suite_assertions"] = v["lines"]
    sbad = {}
    for ln, det in v["mismatches"]:
        sbad.setdefault(ln, []).append(det.strip('"'))
    if any(t == "SUITE" for ts in sbad.values() for t in ts):
        raise ToolError("specification disagrees with the conformance suite on lines %s" % [ln for ln, ts in sbad.items() if "SUITE" in ts][:10])
    srecs = read_lines(st, sbad.keys())
    for ln, tags in sbad.items():
        r = srecs[ln]
        for t in tags:
            side = r.get("left") if t == "IMPL-LEFT" else r.get("right")
            o = (side or {}).get("real") or r.get("abort")
            site = "panic@" + o["panic"] if isinstance(o, dict) and "panic" in o else "untyped-decode"
            res.violation("suite:" + ("abort" if t == "abort" else "real_differs_from_spec"), site, {"file": r.get("file"), "assertion": r.get("n"), "types": r.get("types"),
                          "blob_hex": bytes((side or {}).get("blob", [])).hex(), "obs": o}, "conformance suite input: real decoder vs Wire.Parse + Coerce")
    nsess = session_stage(res, wd, tier, seed)
    res.rule = ("TLC (MC_Decode level %d): every (wire type, inhabitant, expected type) over depth-<=2 type trees, message produced by the specification's encoder; harness: %d seeded cases - random recursive "
                "environments with 0-2 arguments decoded at related/unrelated expected type sequences (surplus, missing), and byte-level mutants (flip, truncate, insert opcode, duplicate, over-long LEB); each through "
                "from_bytes_with_types and the step-wise IDLDeserialize session; plus every assertion of the conformance suite test/*.test.did (specification checked against the asserted outcome, real decoder against the specification); non-trivial = message longer than 8 bytes; distinct by (bytes, expected types, environment). Sessions: %d operation sequences (new / get_value_with_type / is_done / done, every sequence of MC_Session over exact, truncated, extended and damaged messages, plus random walks on random messages) replayed on IDLDeserialize and refereed by Trace_Session" % (level, nrand, nsess))
    res.cov["exhaustive"] = True
    res.assumptions = ["interpretation ledger of DESIGN.md §6.2 (single-byte constructor opcodes, <=10000 table entries, principal <=29 bytes, <=1 annotation, opaque references unsupported, uninhabited wire records = empty)",
                       "messages the specification classifies as bombs (more than 20000 values) are not judged"]
    return res.finish()

def replay(path):
    d = json.load(open(path))
    print(json.dumps(d["cases"][0], indent=1)[:3000])
    return 1
