"""C19 — all binding generators are total, deterministic and closed on checked programs."""
import json, os
from common import *
PROP = "C19"

def run(tier, seed):
    res = Result(PROP, tier, seed)
    wd = workdir(PROP)
    build_harness()
    nrand = 900 if tier == "quick" else 12000
    # checked programs of the exhaustive universe get all four generators in C14's downstream step (panic, determinism);
    # here: random programs with doc comments and hostile names, outputs lexed by the target-language machines
    gens = [{"module": "MC_Prog", "constants": {"NDefs": 1, "U": '"small"'}, "invariants": ["OrderFree", "Emit"]}]
    trace, bad = standard_flow(res, wd, gens, "prog", "Trace_Bind", nrand, seed, harness_extra=["bind"], shards=8)
    # a second process (fresh hash seeds): outputs must be identical
    t2 = os.path.join(wd, "second.ndjson")
    cases = os.path.join(wd, "cases.ndjson")
    run_harness_parallel("prog", cases, seed, nrand, t2, wd, extra=["bind"])
    recs = read_lines(trace, bad.keys())
    n = 0
    with open(trace) as f1, open(t2) as f2:
        for l1, l2 in zip(f1, f2):
            a, b = json.loads(l1), json.loads(l2)
            if a.get("kind") != "bind":
                continue
            n += 1
            res.count_case(a["src"], nontrivial=len(a["src"]) > 40)
            for t in ("js", "ts", "mo", "rs"):
                if a["gens"][t] != b.get("gens", {}).get(t):
                    res.violation(t + ":differs_between_processes", t + " generator", {"src": a["src"][:1200]}, "")
            if n in (3, 400):
                res.sample({"src": a["src"][:400], "js": "".join(map(chr, a["gens"]["js"].get("text", [])))[:300]})
    res.cov["parts"]["programs_with_outputs"] = n
    for ln, tags in bad.items():
        r = recs[ln]
        for t in tags:
            tgt = t.split(":")[0]
            site = "panic@" + t.split("@")[1] if "@" in t else tgt + " generator"
            res.violation(t.split("@")[0], site, {"src": r.get("src", "")[:1500], "methods": ["".join(map(chr, m)) for m in r.get("methods", [])],
                                                   "output": "".join(map(chr, r.get("gens", {}).get(tgt, {}).get("text", [])))[:3000]}, "")
    res.rule = ("%d random checked programs (<=5 definitions, with and without main service / init args, doc comments on definitions, fields and methods, hostile doc lines and names containing */ /* // quotes "
                "backslashes newlines ${ backticks and injection markers; Motoko only when every method name is an identifier) and the accepted one-definition programs of MC_Prog, through the JavaScript, TypeScript, Motoko and "
                "Rust generators twice in-process and once in a second process; each output is lexed by TargetLex.tla (comments, strings, identifiers of the target language): it must end in code mode, no injection marker may "
                "surface as a code token, and every method of the main service is mentioned once. All accepted programs of the exhaustive C14 universe additionally run the generators for panics/determinism. "
                "non-trivial = source longer than 40 characters; distinct by source" % nrand)
    res.assumptions = ["closure of type references is judged for JavaScript (C17, by evaluation) and Rust (C18, by compilation); TypeScript and Motoko only lexically (no compiler offline)"]
    return res.finish()

def replay(path):
    d = json.load(open(path)); print(json.dumps(d["cases"][0], indent=1)[:3000]); return 1
