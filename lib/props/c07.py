"""C07 — decoding quotas bound the work and never change the result."""
import json, os
from common import *
PROP = "C07"

def run(tier, seed):
    res = Result(PROP, tier, seed)
    wd = workdir(PROP)
    build_harness()
    nrand = 6000 if tier == "quick" else 100000
    gens = [{"module": "MC_Quota", "constants": {"MaxQ": 6 if tier == "quick" else 9, "MaxLen": 3 if tier == "quick" else 4},
             "invariants": ["Monotone", "CostIndependent"], "properties": ["NeverRefunds"], "workers": 8}]
    trace, bad = standard_flow(res, wd, gens, "fuzz", "Trace_Quota", nrand, seed, harness_extra=["quota"])
    recs = read_lines(trace, bad.keys())
    ratios = []
    with open(trace) as f:
        for i, line in enumerate(f):
            r = json.loads(line)
            if r.get("kind") != "quota":
                continue
            ok = "ok" in r["big"]
            res.count_case(json.dumps([r["api"], r["blob"], r["types"]]), nontrivial=ok and len(r["runs"]) >= 5)
            if i in (3, 50, 1000):
                res.sample({"api": r["api"], "rust": r.get("rust"), "blob_hex": bytes(r["blob"]).hex(), "cost": [r["big"].get("cd"), r["big"].get("cs")],
                            "runs": [[x.get("d"), x.get("s"), "ok" if "ok" in x else ("quota" if "quota" in x else "err")] for x in r["runs"]][:12]})
    for ln, tags in bad.items():
        r = recs[ln]
        for t in tags:
            res.violation(t, r.get("api", "?") + ":" + (r.get("rust") or "IDLValue"), {"api": r.get("api"), "rust": r.get("rust"), "types": r.get("types"), "blob_hex": bytes(r.get("blob", [])).hex(),
                                                    "cost": [r["big"].get("cd"), r["big"].get("cs")], "runs": [[x.get("d"), x.get("s"), "ok" if "ok" in x else ("quota" if "quota" in x else "err"), x.get("cd"), x.get("cs")] for x in r.get("runs", [])]}, "")
    # the quota as session state: remaining decoding quota after every call of a step-wise session never goes up
    from props import c02
    nsess = c02.session_stage(res, wd, tier, seed, prop="C07")
    res.cov["parts"]["sessions_quota_monotone"] = nsess
    res.rule = ("design: MC_Quota model-checks monotonicity, cost independence and no-refund for every charge sequence and quota pair of the bounded universe; implementation: %d seeded honest messages - untyped "
                "decoding at related expected types (surplus/missing arguments and fields, opt back-tracking) and native decoding of corpus values with 0-2 surplus arguments - decoded unmetered, measured (cost via compute_cost), "
                "and under the quota grid {0, c-1, c, c+1, 2c+7}^2; Trace_Quota.tla checks result invariance, monotonicity on the grid, cost independence, cost >= number of values, surplus arguments charged to the skipping "
                "quota, cost <= 3 x documented model (Cost.tla). non-trivial = successful measured decode with >=5 metered runs; distinct by (api, bytes, types)" % nrand)
    res.assumptions = ["K = 3 (calibrated: observed cost / documented model <= 1.0 on the pinned tree)", "exact thresholds (quota = cost) are not gated"]
    return res.finish()

def replay(path):
    d = json.load(open(path)); print(json.dumps(d["cases"][0], indent=1)[:3000]); return 1
