"""C16 — principal text form is a checksummed bijection on 0..29-byte ids."""
import json, os
from common import *
PROP = "C16"

def run(tier, seed):
    res = Result(PROP, tier, seed)
    wd = workdir(PROP)
    build_harness()
    maxlen = 1 if tier == "quick" else 2
    trace, bad = standard_flow(res, wd, [{"module": "MC_Principal", "constants": {"MaxLen": maxlen, "LongLens": "{2,3,4,5,9,10,14,15,19,20,24,25,28,29,30,31}" if tier == "quick" else "3..31", "Classes": "{0, 255}" if tier == "quick" else "{0, 1, 127, 128, 255}"}, "invariants": ["Bijection", "AcceptedIsCanon", "Emit"]}],
                               "principal", "Trace_Principal", 4000 if tier == "quick" else 60000, seed)
    recs = read_lines(trace, bad.keys())
    acc = 0
    with open(trace) as f:
        for i, line in enumerate(f):
            r = json.loads(line)
            key = json.dumps(r.get("b", r.get("s")))
            nt = (r.get("kind") == "bytes" and len(r["b"]) >= 1) or (r.get("kind") == "text")
            res.count_case(key, nontrivial=nt)
            if r.get("kind") == "text" and "ok" in r["obs"].get("from_text", {}):
                acc += 1
            if i in (3, 300, 5000, 30000):
                res.sample({k: r[k] for k in r if k != "obs"} | {"from_text": r.get("obs", {}).get("from_text"), "to_text": r.get("obs", {}).get("to_text")})
    res.cov["parts"]["texts_accepted_by_impl"] = acc
    for ln, tags in bad.items():
        r = recs[ln]
        for tag in tags:
            o = r.get("obs", {}).get(tag)
            sym = "panic" if isinstance(o, dict) and "panic" in o else ("rejects" if isinstance(o, dict) and "err" in o else "accepts_or_wrong")
            res.violation("%s:%s" % (tag, sym), r.get("kind", "abort"), {k: r[k] for k in r if k != "obs"} | {"obs": o}, "entry point %s disagrees with Crc32Base32.tla" % tag)
    res.rule = ("byte strings: all of length <=%d, one per (length class, content class pair) from TLC; texts: canonical text of each and every single edit "
                "(substitute by 14 class representatives, delete, insert, truncate, case flips, dash removal) from TLC; seeded random byte strings (<=40 bytes) and mutated texts "
                "from the harness; 15 entry points (constructors, to_text/Display, from_text/FromStr/TryFrom, serde_json, Candid message, wire principal, text value); "
                "non-trivial = non-empty byte string or any text; distinct by input" % maxlen)
    res.cov["exhaustive"] = True
    res.assumptions = ["TLC evaluates Crc32Base32.tla faithfully (CRC-32 cross-checked against zlib in the design study)"]
    return res.finish()

def replay(path):
    d = json.load(open(path))
    build_harness()
    wd = workdir(PROP + "_replay")
    cases = os.path.join(wd, "cases.ndjson")
    with open(cases, "w") as f:
        for c in d["cases"]:
            k = "b" if "b" in c["case"] else "s"
            f.write(json.dumps({k: c["case"][k]}) + "\n")
    trace = os.path.join(wd, "trace.ndjson")
    run_harness_supervised(["principal", "--cases", cases, "--n", 0], trace)
    v = tlc_validate("Trace_Principal", trace, wd, shards=1)
    for ln, det in v["mismatches"]:
        print("still failing: line", ln, det)
    return 1 if v["mismatches"] else 0
