"""C14 — the type checker accepts exactly the well-formed programs."""
import json, os
from common import *
PROP = "C14"

def run(tier, seed):
    res = Result(PROP, tier, seed)
    wd = workdir(PROP)
    build_harness()
    nrand = 6000 if tier == "quick" else 100000
    gens = [{"module": "MC_Prog", "constants": {"NDefs": 2, "U": '"small"' if tier == "quick" else '"medium"'}, "invariants": ["OrderFree", "Emit"]},
            # alias structure: every program of 3 (thorough: 4) definitions named from {A,B,C,D} whose bodies are names, nat, opt/vec of a name or a service
            {"module": "MC_Prog", "constants": {"NDefs": 3 if tier == "quick" else 4, "U": '"alias"'}, "invariants": ["OrderFree", "Emit"]}]
    trace, bad = standard_flow(res, wd, gens, "prog", "Trace_Prog", nrand, seed, harness_extra=["wf"])
    recs = read_lines(trace, bad.keys())
    acc = 0
    with open(trace) as f:
        for i, line in enumerate(f):
            r = json.loads(line)
            if r.get("kind") not in ("wf", "wfr"):
                continue
            acc += r.get("impl") == 1
            res.count_case(r["src"], nontrivial=len(r["src"]) > 30)
            if i in (1000, 150000, 232000):
                res.sample({"src": r["src"][:400], "impl": r["impl"], "wf": r.get("wf"), "msg": r.get("msg")})
    res.cov["parts"]["programs_accepted_by_checker"] = acc
    for ln, tags in bad.items():
        r = recs[ln]
        for t in tags:
            site = "typing.rs check_prog" if t in ("rejects_wellformed", "accepts_illformed") else t.split(":")[0]
            if t.startswith("checker_panics") or t.startswith("downstream_panic"):
                site = "panic@" + t.split("@")[-1] if "@" in t else t
            res.violation(t.split("@")[0], site, {"src": r.get("src", "")[:1200], "impl": r.get("impl"), "wf": r.get("wf"), "msg": r.get("msg"), "down": r.get("down")}, "")
    res.rule = ("TLC (MC_Prog): every program of <=2 definitions named from {A,B} with repetition over a universe of bodies/actors containing one representative of every way to be ill-formed (undefined name, duplicate, "
                "vacuous cycle, colliding labels incl. name/numeral collision, non-function method, duplicate method, two annotations, oneway with results, duplicate argument names, non-service actor, service constructor) with the "
                "verdict of WellFormed.tla; harness: %d random programs (<=5 definitions, depth 3, awkward names), half generated valid and half with seeded defects, judged by WellFormed.tla in the referee. Every program is rendered "
                "by the harness's printer, parsed and checked; accepted programs additionally run trace_type, subtype, equal and the four binding generators. non-trivial = source longer than 30 characters; distinct by source" % nrand)
    res.cov["exhaustive"] = True
    res.assumptions = ["imports are not part of this universe (check_file is exercised by the repository's tests only)"]
    return res.finish()

def replay(path):
    d = json.load(open(path)); print(json.dumps(d["cases"][0], indent=1)[:3000]); return 1
