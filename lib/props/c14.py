"""C14 — the type checker accepts exactly the well-formed programs."""
import json, os
from common import *
PROP = "C14"

def run(tier, seed):
    res = Result(PROP, tier, seed)
    wd = workdir(PROP)
    build_harness()
    nrand = 6000 if tier == "quick" else 100000
    gens = [{"module": "MC_Prog", "constants": {"NDefs": 2, "U": '"small"' if tier == "quick" else '"medium"'}, "invariants": ["OrderFree", "Emit"]},
            # alias structure: every program of 3 (thorough: 4) definitions named from {A,B,C,D} whose bodies are names, nat, opt/vec of a name or a service
            {"module": "MC_Prog", "constants": {"NDefs": 3 if tier == "quick" else 4, "U": '"alias"'}, "invariants": ["OrderFree", "Emit"]}]
    trace, bad = standard_flow(res, wd, gens, "prog", "Trace_Prog", nrand, seed, harness_extra=["wf"])
    recs = read_lines(trace, bad.keys())
    acc = 0
    with open(trace) as f:
        for i, line in enumerate(f):
            r = json.loads(line)
            if r.get("kind") not in ("wf", "wfr"):
                continue
            acc += r.get("impl") == 1
            res.count_case(r["src"], nontrivial=len(r["src"]) > 30)
            if i in (1000, 150000, 232000):
                res.sample({"src": r["src"][:400], "impl": r["impl"], "wf": r.get("wf"), "msg": r.get("msg")})
    res.cov["parts"]["programs_accepted_by_checker"] = acc
    for ln, tags in bad.items():
        r = recs[ln]
        for t in tags:
            site = "typing.rs check_prog" if t in ("rejects_wellformed", "accepts_illformed") else t.split(":")[0]
            if t.startswith("checker_panics") or t.startswith("downstream_panic"):
                site = "panic@" + t.split("@")[-1] if "@" in t else t
            res.violation(t.split("@")[0], site, {"src": r.get("src", "")[:1200], "impl": r.get("impl"), "wf": r.get("wf"), "msg": r.get("msg"), "down": r.get("down")}, "")
    # import leg (Imports.tla): programs split over files, checked by check_file on files written to disk
    iwd = os.path.join(wd, "import")
    os.makedirs(iwd, exist_ok=True)
    cfg = os.path.join(iwd, "MC_Import.cfg")
    write_cfg(cfg, constants={"MaxImp": 2 if tier == "quick" else 3}, invariants=["OrderFree", "TwiceSame", "Emit"])
    icases = os.path.join(iwd, "cases.ndjson")
    st = tlc_generate("MC_Import", cfg, icases, iwd, workers=NCPU, timeout=3000)
    if st["violated"]:
        raise ToolError("specification invariant violated in MC_Import: %s\n%s" % (st["violated"], st["tail"][-1500:]))
    res.add_states(st)
    res.cov["parts"]["tlc_cases_MC_Import"] = st["cases"]
    it = os.path.join(iwd, "trace.ndjson")
    run_harness_parallel("prog", icases, seed, 0, it, iwd, extra=["import"], k=8)
    iv = tlc_validate("Trace_Import", it, iwd)
    res.add_states(iv)
    res.cov["traces_validated_against_impl"] += iv["lines"]
    ibad = {}
    for ln, det in iv["mismatches"]:
        ibad.setdefault(ln, []).append(det.strip('"'))
    irecs = read_lines(it, ibad.keys())
    with open(it) as f:
        for line in f:
            r = json.loads(line)
            res.count_case("import" + json.dumps(r.get("files", {}).get("r"), sort_keys=True), nontrivial=len(r.get("files", {}).get("r", {}).get("imports", [])) > 0)
    for ln, tags in ibad.items():
        r = irecs[ln]
        for t in tags:
            site = "panic@" + t.split("@")[-1] if "@" in t else "typing.rs check_file"
            res.violation(t.split("@")[0], site, {"root": r.get("files", {}).get("r"), "library": "MC_Import.Lib (a b c d e n m)", "impl": r.get("impl"), "msg": r.get("msg"), "methods": r.get("ms"), "defs": r.get("defs")}, "check_file vs Imports.tla")
    res.rule = ("TLC (MC_Prog): every program of <=2 definitions named from {A,B} with repetition over a universe of bodies/actors containing one representative of every way to be ill-formed (undefined name, duplicate, "
                "vacuous cycle, colliding labels incl. name/numeral collision, non-function method, duplicate method, two annotations, oneway with results, duplicate argument names, non-service actor, service constructor) with the "
                "verdict of WellFormed.tla; harness: %d random programs (<=5 definitions, depth 3, awkward names), half generated valid and half with seeded defects, judged by WellFormed.tla in the referee. Every program is rendered "
                "by the harness's printer, parsed and checked; accepted programs additionally run trace_type, subtype, equal and the four binding generators. non-trivial = source longer than 30 characters; distinct by source. Import leg (MC_Import): every root file with up to %d plain / service imports over a library of 7 files (service, service behind a name, duplicate definition, service constructor, nested plain and service imports) and a missing file, x 4 definition lists x 5 main services, checked by check_file on disk and refereed by Imports.tla (verdict, merged method names, merged definition names)" % (nrand, 2 if tier == "quick" else 3))
    res.cov["exhaustive"] = True
    res.assumptions = ["import leg: the library of imported files is fixed (MC_Import.Lib); cyclic imports are not explored"]
    return res.finish()

def replay(path):
    d = json.load(open(path)); print(json.dumps(d["cases"][0], indent=1)[:3000]); return 1
