"""C20 — randomly generated arguments always inhabit the requested types."""
import json, os, collections
from common import *
PROP = "C20"


def _expect_spec_counterexample(wd):
    """Sanity of the specification: without the recursion guard the generator machine must have a run that never
    returns (TLC has to find it); a specification that cannot show the failure cannot show its absence either."""
    cfg = os.path.join(wd, "MC_Rand_noguard.cfg")
    write_cfg(cfg, constants={"MaxEnt": 1, "MaxLen": 1, "Guard": 1000, "U": "small"}, invariants=["Shallow"])
    st = tlc_generate("MC_Rand", cfg, os.path.join(wd, "noguard.ndjson"), wd, workers=4, timeout=600)
    if "Shallow" not in st["violated"]:
        raise ToolError("MC_Rand without its guard did not exhibit the unbounded recursion (specification is vacuous)")
    return st


def run(tier, seed):
    res = Result(PROP, tier, seed)
    wd = workdir(PROP)
    build_harness()
    quick = tier == "quick"
    nrand = 9000 if quick else 200000
    st0 = _expect_spec_counterexample(wd)
    gens = [{"module": "MC_Rand", "constants": {"MaxEnt": 3 if quick else 5, "MaxLen": 2, "Guard": 14 if quick else 18, "U": "full"},
             "invariants": ["StackBound", "Sound", "NoValueOfUninhabited", "Emit"], "properties": ["Termination"], "workers": 8}]
    trace, bad = standard_flow(res, wd, gens, "rand", "Trace_Rand", nrand, seed, harness_extra=[] if quick else ["--thorough"])
    recs = read_lines(trace, bad.keys())
    kinds = collections.Counter()
    with open(trace) as f:
        for i, line in enumerate(f):
            r = json.loads(line)
            if r.get("kind") != "rand":
                kinds["abort"] += 1
                continue
            o = r["out"]
            k = "ok" if "ok" in o else "big" if "big" in o else "panic" if "panic" in o else "err"
            kinds[k] += 1
            res.count_case(json.dumps([r["env"], r["types"], r["toml"], r["seed_kind"], r["seed_len"]]), nontrivial=(k == "ok" and len(json.dumps(o)) > 200))
            if i in (5, 700, 4000):
                res.sample({"origin": r["origin"], "types": r["types"], "config": r["toml"], "seed": [r["seed_kind"], r["seed_len"]], "outcome": k, "value": json.dumps(o)[:300]})
    res.cov["parts"]["outcomes"] = dict(kinds)
    # vacuity: a generator that always reports an error satisfies the letter of the property
    if kinds["ok"] + kinds["big"] < 0.4 * sum(kinds.values()):
        raise ToolError("fewer than 40%% of the runs returned values (%s): the check would be vacuous" % dict(kinds))
    for ln, tags in bad.items():
        r = recs[ln]
        o = r.get("out", {})
        for t in tags:
            if t == "panic":
                site = "panic@" + o.get("panic", "?")
            elif t == "abort":
                site = "worker died: " + str(r.get("abort", {}).get("rc"))
            else:
                site = "random.rs"
            res.violation(t, site, {"types": r.get("types"), "config": r.get("toml"), "seed": [r.get("seed_kind"), r.get("seed_len")],
                                    "env": {k: v for k, v in (r.get("env") or {}).items() if not k.startswith("p_")},
                                    "out": json.loads(json.dumps(o)[:4000]) if len(json.dumps(o)) < 4000 else json.dumps(o)[:4000], "annotated": r.get("ann") if len(json.dumps(r.get("ann"))) < 2000 else "...", "encoded": r.get("enc") if len(json.dumps(r.get("enc"))) < 2000 else "..."}, "")
    res.add_states(st0)
    res.rule = ("design: MC_Rand.tla runs the generator as a pushdown machine (Enter/Descend/Return/Trip) on every (environment, type, configuration) of its universe - uninhabited and barely inhabited recursion, "
                "empty, empty variants, in-place vectors; per-definition depth/size/width, range, text kind - with bounded entropy, checking StackBound, Termination (liveness), Sound (machine output has the type and "
                "satisfies the budget/width/range/text laws of RandGen.tla) and that the unguarded machine does diverge; implementation: each universe element with %d seeds (empty, all-zero, all-ones, random of several "
                "lengths) plus %d seeded runs on shaped and random environments with random configurations (range incl. inverted/out-of-type, width, text kinds incl. unknown, depth/size, value literals well- and ill-typed); "
                "Trace_Rand.tla: no panic/abort, returned values have the requested types (HasType), annotate_types returns them unchanged, they encode and decode back, and satisfy the laws. "
                "non-trivial = values returned with a projection longer than 200 characters; distinct by (environment, types, configuration, seed class)" % (6 if quick else 10, nrand))
    res.cov["exhaustive"] = False
    res.assumptions = ["values whose text exceeds 20 000 characters or whose projection nests deeper than 240 JSON levels (limit of TLC's JSON reader) are judged by the crate's own annotate/encode only (recorded as 'big')",
                       "configuration language covered: root table and one table per definition name (no label paths, no func:/arg: scopes)",
                       "root-level depth/size are not consulted by the code (ledger); the laws use the defaults 10/100 there"]
    return res.finish()


def replay(path):
    d = json.load(open(path)); print(json.dumps(d["cases"][0], indent=1)[:3000]); return 1
