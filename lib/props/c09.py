"""C09 — unbounded and 128-bit integer codecs implement (S)LEB128 exactly."""
import json, os
from common import *

PROP = "C09"

def run(tier, seed):
    res = Result(PROP, tier, seed)
    wd = workdir(PROP)
    build_harness()
    maxlen = 2 if tier == "quick" else 3
    cases = os.path.join(wd, "cases.ndjson")
    # 1. spec -> impl: TLC enumerates the strings and checks the codec meta-theorems on each
    tot = 0
    for fam in ("FALSE", "TRUE"):
        cfg = os.path.join(wd, "MC_Leb_%s.cfg" % fam)
        write_cfg(cfg, constants={"MaxLen": maxlen, "Family": fam},
                  invariants=["RoundTripNat", "RoundTripInt", "Minimal", "NoNegZero", "Emit"])
        part = os.path.join(wd, "cases_%s.ndjson" % fam)
        st = tlc_generate("MC_Leb", cfg, part, wd, workers=NCPU)
        if st["violated"]:
            raise ToolError("specification meta-theorem violated: %s" % st["violated"])
        res.add_states(st)
        tot += st["cases"]
        with open(cases, "a") as out, open(part) as f:
            out.write(f.read())
    res.cov["parts"]["tlc_enumerated_strings"] = tot
    # 2. run the real decoders/encoders on them, plus random long strings and boundary integers
    nrand = 6000 if tier == "quick" else 120000
    trace = os.path.join(wd, "trace.ndjson")
    run_harness_supervised(["leb", "--cases", cases, "--seed", seed, "--n", nrand], trace)
    # 3. impl -> spec: the trace specification recomputes every expected outcome
    v = tlc_validate("Trace_Leb", trace, wd)
    res.add_states(v)
    res.cov["traces_validated_against_impl"] = v["lines"]
    bad = {}
    for ln, det in v["mismatches"]:
        bad.setdefault(ln, []).append(det.strip('"'))
    recs = read_lines(trace, bad.keys())
    with open(trace) as f:
        for i, line in enumerate(f):
            r = json.loads(line)
            b = r.get("b", [])
            res.count_case(json.dumps(b), nontrivial=len(b) >= 2)
            if i in (5, 17000, 20000):
                res.sample({"b": b, "obs": {k: r["obs"][k] for k in list(r["obs"])[:4]}})
    for ln, tags in bad.items():
        r = recs[ln]
        for tag in tags:
            o = r.get("obs", {}).get(tag, r.get("enc", {}).get(tag[4:], {})) if tag != "abort" else r.get("abort")
            sym = "panic" if isinstance(o, dict) and "panic" in o else ("abort" if tag == "abort" else ("err" if isinstance(o, dict) and "err" in o else "wrong"))
            res.violation("%s:%s" % (tag, sym), "len%s" % ("<19" if len(r.get("b", [])) < 19 else ">=19"),
                          {"b": r.get("b"), "tag": tag, "obs": o}, "decoder/encoder %s disagrees with Leb128.tla" % tag)
    res.rule = ("all terminated strings of <=%d bytes and 9000 boundary-family strings enumerated by TLC (MC_Leb), %d seeded random/boundary strings "
                "from the harness; each through 21 decoder entry points and 9 encoders; non-trivial = string of >=2 bytes, distinct by bytes" % (maxlen, nrand))
    res.cov["exhaustive"] = True
    res.assumptions = ["TLC evaluates Leb128.tla faithfully", "harness projections (bit lists) are independent of the crate's codec"]
    return res.finish()

def replay(path):
    d = json.load(open(path))
    build_harness()
    wd = workdir(PROP + "_replay")
    cases = os.path.join(wd, "cases.ndjson")
    with open(cases, "w") as f:
        for c in d["cases"]:
            f.write(json.dumps({"b": c["case"]["b"]}) + "\n")
    trace = os.path.join(wd, "trace.ndjson")
    run_harness_supervised(["leb", "--cases", cases, "--n", 0], trace)
    v = tlc_validate("Trace_Leb", trace, wd, shards=1)
    for ln, det in v["mismatches"]:
        print("still failing:", read_line(trace, ln)["b"], det)
    return 1 if v["mismatches"] else 0
