"""C06 — decoding arbitrary bytes never panics, crashes or over-allocates."""
import json, os
from common import *
PROP = "C06"

def cls(o):
    return "ok" if "ok" in o else "quota" if "quota" in o else "panic" if "panic" in o else "skip" if "skip" in o else "err"

def run(tier, seed):
    res = Result(PROP, tier, seed, level="exploration")
    wd = workdir(PROP)
    maxlen = 3 if tier == "quick" else 4
    nrand = 12000 if tier == "quick" else 200000
    gens = [{"module": "MC_WireBytes", "constants": {"MaxLen": maxlen}, "invariants": ["SpecTotal", "Emit"]}]
    traces = {}
    for profile in ("debug", "release"):
        build_harness(profile)
        wdp = os.path.join(wd, profile)
        os.makedirs(wdp)
        if profile == "debug":
            trace, bad = standard_flow(res, wdp, gens, "fuzz", "Trace_Msg", nrand, seed, profile=profile, harness_extra=["fuzz"])
        else:
            # the release build gets exactly the inputs the debug build saw (random corpus values are not reproducible across processes)
            with open(traces["debug"]) as f:
                inputs = [{"b": json.loads(l)["blob"]} for l in f if '"abort"' not in l[:40]]
            trace, bad = standard_flow(res, wdp, [], "fuzz", "Trace_Msg", 0, seed, profile=profile, harness_extra=["fuzz"], extra_cases=inputs, hshards=8)
        traces[profile] = trace
        recs = read_lines(trace, bad.keys())
        for ln, tags in bad.items():
            r = recs[ln]
            for t in tags:
                if "abort" in r:
                    res.violation("abort:" + profile, "worker died (stack overflow / abort / hang)", {"idx": r.get("idx"), "abort": r["abort"]}, "")
                    continue
                site = t.split("@", 1)[1] if t.startswith("panic:") and "@" in t else "decode"
                res.violation(t.split("@")[0] + ":" + profile, site, {"origin": r.get("origin"), "blob_hex": bytes(r.get("blob", [])).hex()[:400], "types": r.get("types"), "real": r.get("real"),
                                                                       "runs": [[x.get("d"), x.get("s"), cls(x), x.get("peak")] for x in r.get("runs", [])], "native": r.get("native")}, "")
    # debug and release builds must agree on every outcome class (wrapped arithmetic would show here)
    nlines = 0
    rel = {}
    with open(traces["release"]) as fr:
        for lr in fr:
            b = json.loads(lr)
            if "abort" not in b:
                rel[bytes(b["blob"])] = b
    with open(traces["debug"]) as fd:
        for ld in fd:
            nlines += 1
            a = json.loads(ld)
            if "abort" in a:
                continue
            b = rel.get(bytes(a["blob"]))
            if b is None:
                continue
            res.count_case(json.dumps(a["blob"]), nontrivial=len(a["blob"]) > 6)
            ca = [cls(x) for x in a["runs"]] + [cls(x) for x in a["native"]] + [cls(a["any"]), cls(a["real"])]
            cb = [cls(x) for x in b["runs"]] + [cls(x) for x in b["native"]] + [cls(b["any"]), cls(b["real"])]
            if ca != cb:
                res.violation("debug_release_differ", "decode", {"blob_hex": bytes(a["blob"]).hex()[:400], "debug": ca, "release": cb}, "")
            if nlines in (5, 14000, 20000):
                res.sample({"origin": a["origin"], "blob_hex": bytes(a["blob"]).hex()[:200], "runs": [[x.get("d"), x.get("s"), cls(x), x.get("peak")] for x in a["runs"]], "native": [[x.get("rust"), cls(x)] for x in a["native"]]})
    res.cov["parts"]["inputs_per_build"] = nlines
    res.rule = ("inputs: every byte string of <=%d bytes over 24 byte-class representatives after the magic (TLC, MC_WireBytes; the specification's decoder is total on them), %d seeded inputs per build - hostile headers "
                "(2^32..2^63 counts in every count position, zero-sized element bombs, deep opt/vec nesting to 20000, long LEB), byte mutants of valid untyped and native messages, valid messages; each decoded in debug and release "
                "builds through from_bytes, from_bytes_with_types under 5 quota configurations, 3 native corpus types, and on a 192 KiB stack; referee: no panic/abort/hang (20 s watchdog), peak allocation <= 8 MiB + 256*len + 64*q "
                "under a quota, outcome = Wire/Coerce verdict on the unmetered run, debug = release. non-trivial = input longer than 6 bytes; distinct by bytes" % (maxlen, nrand))
    res.cov["exhaustive"] = False
    res.assumptions = ["unmetered entry points are exercised only on inputs that a 2*10^7 quota does not reject (length bombs are unbounded by design without a quota)",
                       "memory is measured by a counting global allocator in the harness, stack exhaustion by worker death; TLC supplies inputs and verdicts, not the absence proof"]
    return res.finish()

def replay(path):
    d = json.load(open(path)); print(json.dumps(d["cases"][0], indent=1)[:3000]); return 1
